import SplinkVerif.Lemmas.Tables
/-!
# C18 — Splink never damages data it did not create and can clean up after itself

Property theorems about `Model/Tables.lean` (the table-cache state machine of `Model/Cache.lean` plus an
owner tag per catalog entry, `register_table`'s existence check and the `created_by_splink` guard).
`hash` is the physical-name hash, `eval` the contents a SQL text produces — both arbitrary functions;
`U` is the catalog before Splink was attached (name ↦ schema+contents code); `derivedName` is any
classifier of table names singling out the form `<templated>_<hash>` of Splink's physical names.

Former finding, now repaired (F24): `register_table(data, <physical name of a cached Splink table>,
overwrite=True)` used to replace the table but leave the dict entry, so the bulk deletion then dropped the
caller's table.  The code (and `Tables.register`) now also removes every dict entry whose physical name is the
replaced one; `overwrite_onto_cached_name_kept` states, for every state, that the caller's table survives
`delete_tables_created_by_splink_from_db` and `invalidate_cache`.
-/
namespace SplinkVerif.C18
open SplinkVerif SplinkVerif.Tables
open SplinkVerif.Cache (Phys Key Entry Req dbGet)

/-- The explicit, decidable name-form hypothesis (definition in `Model/Tables.lean`, a `Bool`):
`U.all (fun e => !derivedName e.1) && ops.all (wfOp hash derivedName U)` where `wfOp` demands of
`req r`: `derivedName ⟨r.templ, hash r.text 0⟩`; of `register p _ ow`: `!derivedName p && (!ow || !nameIn p U)`;
of `dropDf p created force`: `if created then derivedName p else (!force || !nameIn p U)`.
It excludes user tables literally named `<templated>_<hash>`, user tables the caller (or Splink's own
`overwrite=True` registrations `__splink__df_new_records_<uid>`, `__splink__compare_two_records_*_<uid>`,
`__splink__bridges_<hash>`, `__splink__input_table_<i>`) overwrites or force-drops by name, and
registrations under the physical name of a Splink-derived table (the latter are nevertheless handled by the
code since repair F24, see `overwrite_onto_cached_name_kept`, which needs no `WF`). -/
abbrev WF := @Tables.WF

/-- **User tables are untouched.** After every history of requests (cached or not), named stores,
registrations, guarded drops, `delete_tables_created_by_splink_from_db` and `invalidate_cache`, every
table that was in the database before Splink was attached is still in the catalog with the same
contents and is still the user's. -/
theorem user_tables_untouched (hash eval : Nat → Nat → Nat) (derivedName : Phys → Bool)
    (U : List (Phys × Nat)) (ops : List Op) (h : WF hash derivedName U ops = true)
    (p : Phys) (v : Nat) (hp : (p, v) ∈ U) :
    (p, v) ∈ (run hash eval (attach U) ops).base.db ∧
      ownerOf p (run hash eval (attach U) ops).tags = .user :=
  Lemmas.TablesL.user_tables_untouched hash eval derivedName U ops h p v hp

/-- **Registration under an existing name is refused unless overwrite is requested**: in every state, if
the name is in the catalog, `register_table(data, name, overwrite=False)` raises and changes nothing. -/
theorem register_refused_without_overwrite (s : State) (p : Phys) (v w : Nat) (h : (p, w) ∈ s.base.db) :
    (register s p v false).refused = true ∧ (register s p v false).state = s :=
  Lemmas.TablesL.register_refused_of_mem s p v w h

/-- …and with `overwrite=True` it is carried out: the name then holds the caller's data. -/
theorem register_with_overwrite_replaces (s : State) (p : Phys) (v : Nat) :
    (register s p v true).refused = false ∧ (p, v) ∈ (register s p v true).state.base.db ∧
      ownerOf p (register s p v true).state.tags = .callerRegistered :=
  Lemmas.TablesL.register_overwrite s p v

/-- **Dropping through Splink refuses tables Splink did not create**: a SplinkDataFrame without
`created_by_splink`, dropped without `force_non_splink_table`, raises and changes nothing. -/
theorem drop_refused_for_foreign (s : State) (p : Phys) : dropDf s p false false = ⟨s, true⟩ :=
  Lemmas.TablesL.drop_refused s p

/-- **Cleanup is exact.** In the state reached by any disciplined history,
`delete_tables_created_by_splink_from_db` (and `invalidate_cache`, which has the same catalog effect)
leaves no table produced by a request in the catalog, and every other entry — the user's tables and
the caller's registrations — is still there with the same contents. -/
theorem cleanup_exact (hash eval : Nat → Nat → Nat) (derivedName : Phys → Bool)
    (U : List (Phys × Nat)) (ops : List Op) (h : WF hash derivedName U ops = true) (p : Phys) (v : Nat) :
    let s := run hash eval (attach U) ops
    ((p, v) ∈ (Cache.deleteCreated s.base).db → ownerOf p s.tags ≠ .splinkDerived) ∧
    ((p, v) ∈ s.base.db → ownerOf p s.tags ≠ .splinkDerived → (p, v) ∈ (Cache.deleteCreated s.base).db) ∧
    (Cache.invalidate s.base).db = (Cache.deleteCreated s.base).db :=
  ⟨Lemmas.TablesL.no_derived_after_deleteCreated (Lemmas.TablesL.inv_of_wf ops h),
   Lemmas.TablesL.kept_by_deleteCreated (Lemmas.TablesL.inv_of_wf ops h), rfl⟩

/-- **Dropped means gone**: after a drop that was not refused the catalog has no table of that name… -/
theorem dropped_means_gone (s : State) (p : Phys) (created force : Bool)
    (h : (dropDf s p created force).refused = false) (v : Nat) :
    (p, v) ∉ (dropDf s p created force).state.base.db :=
  Lemmas.TablesL.dropped_gone s p created force h v

/-- …and every table the bulk deletion picks (held by the dict under its own name with
`created_by_splink`) is absent afterwards. -/
theorem bulk_dropped_means_gone (s : Cache.State) (e : Entry) (h : (Key.phys e.phys, e) ∈ s.cache)
    (hc : e.createdBySplink = true) (v : Nat) : (e.phys, v) ∉ (Cache.deleteCreated s).db :=
  Lemmas.TablesL.bulk_dropped_gone s e h hc v

/-- **Overwriting a cached Splink table keeps the caller's data** (repair F24; formerly a finding, confirmed
on the real code: `register_table(data, <physical name of a cached Splink table>, overwrite=True)` replaced the
table but left the dict entry, so the bulk deletion then dropped the caller's table).  Now, in EVERY state (no
name discipline assumed), registering with `overwrite=True` under a name that is in the catalog forgets every
dict entry pointing at that name; hence neither `delete_tables_created_by_splink_from_db` nor
`invalidate_cache` removes the newly registered table. -/
theorem overwrite_onto_cached_name_kept (s : State) (p : Phys) (v : Nat)
    (h : (dbGet p s.base.db).isSome = true) :
    let s' := (register s p v true).state
    (p, v) ∈ (Cache.deleteCreated s'.base).db ∧ (p, v) ∈ (Cache.invalidate s'.base).db ∧
      ∀ k e, (k, e) ∈ s'.base.cache → e.phys ≠ p :=
  Lemmas.TablesL.overwrite_kept s p v h

/-- The history of the former counterexample (a request, then `register_table(…, overwrite=True)` under the
physical name of the table the request created): the bulk deletion now keeps the caller's table. -/
example :
    let hash := fun t u => t * 1000 + u
    let eval := fun t (_ : Nat) => t
    let s := run hash eval (attach []) [Op.req ⟨7, 3, true⟩, Op.register ⟨7, 3000⟩ 99 true]
    ((⟨7, 3000⟩ : Phys), 99) ∈ s.base.db ∧ ownerOf ⟨7, 3000⟩ s.tags = .callerRegistered ∧
      ((⟨7, 3000⟩ : Phys), 99) ∈ (Cache.deleteCreated s.base).db := by decide

/-- Non-vacuity: a user table `⟨1,0⟩`, a request, a refused and an accepted registration, a refused and a
forced drop, cleanup: the discipline holds, the derived table is gone, the rest is there. -/
example :
    let hash := fun t u => t * 1000 + u
    let eval := fun t (_ : Nat) => t
    let cls : Phys → Bool := fun p => p.hash ≥ 1000
    let U : List (Phys × Nat) := [(⟨1, 0⟩, 11)]
    let ops := [Op.req ⟨7, 3, true⟩, Op.register ⟨1, 0⟩ 5 false, Op.register ⟨2, 0⟩ 6 false,
      Op.dropDf ⟨2, 0⟩ false false, Op.dropDf ⟨7, 3000⟩ true false, Op.req ⟨7, 4, false⟩, Op.deleteCreated]
    WF hash cls U ops = true ∧
    (run hash eval (attach U) ops).base.db = [(⟨2, 0⟩, 6), (⟨1, 0⟩, 11)] ∧
    (register (attach U) ⟨1, 0⟩ 5 false).refused = true := by decide

end SplinkVerif.C18
