import SplinkVerif.Lemmas.GraphMetricsBridges
/-!
# C19 (continued) — the bridge column is fully specified; centralisation ≤ 1 in general

Property theorems only; proofs live in `Lemmas/GraphMetricsBridges.lean`.

* The driver's stand-in for igraph's `Graph.bridges` (`naiveBridges`: remove edge row `k`, run the
  Boolean-array reachability search `reachLoop` for `nv + 1` rounds) meets `BridgeSpec` for EVERY
  edge list (duplicate rows, self loops, arbitrary vertex numbers).  Hence the bridge flag of the
  model instantiated with `naiveBridges` is specified unconditionally.  That igraph agrees with
  `naiveBridges` stays a correspondence check.
* `cluster_centralisation ≤ 1` holds on every simple graph with a consistent clustering, isolated
  cluster members included; the exact general bound of the numerator is `(k − 2)·maxdeg`.
-/
namespace SplinkVerif.C19B
open SplinkVerif SplinkVerif.GraphMetrics SplinkVerif.Lemmas.GM

/-- `naiveBridges` reports edge index `k` iff row `k` exists and its endpoints are not connected in
the multigraph with that row removed — soundness and completeness of the `reachLoop` search, for
every edge list. -/
theorem naiveBridges_meets_spec : BridgeSpec naiveBridges :=
  Lemmas.GM.naiveBridges_meets_spec

/-- The same, spelled out. -/
theorem naiveBridges_iff (g : List (Nat × Nat)) (k : Nat) :
    k ∈ naiveBridges g ↔ ∃ e, g[k]? = some e ∧ ¬ Reach (AdjL (g.eraseIdx k)) e.1 e.2 :=
  Lemmas.GM.naiveBridges_meets_spec g k

/-- `naiveBridges` returns distinct indices (the side condition `hB` of
`C19.bridge_flags_on_right_edges` / `C19.one_row_each`). -/
theorem naiveBridges_nodup (g : List (Nat × Nat)) : (naiveBridges g).Nodup :=
  Lemmas.GM.naiveBridges_nodup g

/-- The reachability search itself: after `nv + 1` rounds the right endpoint of row `e` is marked
iff it is reachable from the left endpoint in the graph with row `k` removed. -/
theorem search_sound_complete (g : List (Nat × Nat)) (k : Nat) (e : Nat × Nat) (he : e ∈ g) :
    mk (searchFrom g k e) e.2 = true ↔ Reach (AdjL (g.eraseIdx k)) e.1 e.2 :=
  searchFrom_correct g k e he

/-- Unconditional meaning of the bridge flag computed with `naiveBridges`: the `k`-th kept edge is
flagged iff removing that edge row disconnects its endpoints in the ORIGINAL thresholded graph. -/
theorem bridge_flag_def_naive (order : List Nat) (es : List Edge)
    (hmem : ∀ e ∈ es, e.1 ∈ order ∧ e.2 ∈ order) (hnd : es.Nodup) (k : Nat) (hk : k < es.length) :
    relabel order es[k] ∈ bridgeRows naiveBridges (es.map (relabel order)) ↔
      ¬ Reach (AdjL (es.eraseIdx k)) es[k].1 es[k].2 :=
  Lemmas.GM.bridge_flag_def_naive order es hmem hnd k hk

/-- The whole edge table with `naiveBridges`: one row per kept edge, in order, flagged iff removing
the edge disconnects its endpoints (no hypothesis on the bridge finder left). -/
theorem edges_table_naive (order : List Nat) (es : List Edge)
    (hmem : ∀ e ∈ es, e.1 ∈ order ∧ e.2 ∈ order) (hnd : es.Nodup) :
    ∃ t, edgesTable naiveBridges order es = some t ∧ t.length = es.length ∧
      ∀ k (hk : k < es.length), ∃ b, t[k]? = some (es[k].1, es[k].2, b) ∧
        (b = true ↔ ¬ Reach (AdjL (es.eraseIdx k)) es[k].1 es[k].2) :=
  edgesTable_naive order es hmem hnd

/-- `2·maxdeg ≤ Σ deg` in every cluster of a loop-free multigraph with a consistent clustering. -/
theorem two_mul_maxdeg_le_sum (n : Nat) (cid : Nat → Nat) (es : List Edge) (c : Nat)
    (hloop : ∀ e ∈ es, e.1 ≠ e.2) (hC : Consistent n cid es) :
    2 * ((members n cid c).map (nodeDegree es)).foldl max 0 ≤
      ((members n cid c).map (nodeDegree es)).sum :=
  Lemmas.GM.two_mul_maxdeg_le_sum n cid es c hloop hC

/-- Exact general bound: the numerator `k·maxdeg − Σ deg` of `cluster_centralisation` is at most
`(k − 2)·maxdeg` (loop-free multigraph, consistent clustering, `k > 2` members). -/
theorem centralisation_bound_general (n : Nat) (cid : Nat → Nat) (es : List Edge) (c : Nat)
    (hloop : ∀ e ∈ es, e.1 ≠ e.2) (hC : Consistent n cid es)
    (hk : (members n cid c).length > 2) :
    let ms := members n cid c
    let k := ms.length
    ∃ z M, (clusterRow (nodesTable n cid es) c).centralisation = some z ∧
      (∀ i ∈ ms, nodeDegree es i ≤ M) ∧ (∃ i ∈ ms, nodeDegree es i = M) ∧
      z.den = (k - 1) * (k - 2) ∧ 0 ≤ z.num ∧ z.num ≤ ((k - 2 : Nat) : Int) * (M : Int) :=
  Lemmas.GM.centralisation_bound_general n cid es c hloop hC hk

/-- `0 ≤ cluster_centralisation ≤ 1` on every simple graph with a consistent clustering, for every
cluster of more than two records — the hypothesis "no member is isolated" of
`C19.centralisation_def` is not needed. -/
theorem centralisation_le_one_general (n : Nat) (cid : Nat → Nat) (es : List Edge) (c : Nat)
    (hS : Simple es) (hC : Consistent n cid es) (hk : (members n cid c).length > 2) :
    ∃ z, (clusterRow (nodesTable n cid es) c).centralisation = some z ∧
      0 ≤ z.num ∧ z.num ≤ z.den :=
  Lemmas.GM.centralisation_le_one_general n cid es c hS hC hk

/-- Non-vacuity of part A: a triangle with a pendant edge has exactly the pendant as a bridge;
a duplicated row is never a bridge while a single row is; a self loop is never a bridge; vertex
numbers need not be contiguous. -/
example :
    naiveBridges [(0, 1), (1, 2), (2, 0), (2, 3)] = [3] ∧
    naiveBridges [(0, 1), (1, 0), (1, 2)] = [2] ∧
    naiveBridges [(5, 5), (5, 9)] = [1] ∧
    naiveBridges [] = [] := by
  decide

/-- Non-vacuity of `bridge_flag_def_naive` / `edges_table_naive`: the example of `C19` with the
real finder instead of the constant `fun _ => [3]`. -/
example :
    edgesTable naiveBridges [3, 1, 0, 2, 5, 4] [(0, 1), (1, 2), (0, 2), (2, 3)] =
      some [(0, 1, false), (1, 2, false), (0, 2, false), (2, 3, true)] := by
  decide

/-- Non-vacuity of part B.  One cluster `{0,1,2,3}`:
* the star `0-1, 0-2, 0-3` meets the hypotheses and has centralisation `6/6 = 1` (the bound `≤ 1`
  is attained);
* the path `1-0-2` plus the isolated member `3` (a shared `cluster_id` without an edge at this
  threshold) meets the hypotheses, violates "no member is isolated", and has centralisation
  `4/6`, numerator `= (k − 2)·maxdeg = 2·2` (the general bound is attained);
* `Simple` cannot be dropped: three copies of the row `0-1` in the cluster `{0,1,2}` give `3/2 > 1`. -/
example :
    let cid : Nat → Nat := fun _ => 0
    let star : List Edge := [(0, 1), (0, 2), (0, 3)]
    let path : List Edge := [(1, 0), (0, 2)]
    let triple : List Edge := [(0, 1), (0, 1), (0, 1)]
    ((allNodes star).Nodup ∧ (∀ e ∈ star, e.1 < 4 ∧ e.2 < 4 ∧ cid e.1 = cid e.2) ∧
      (members 4 cid 0).length = 4 ∧
      (clusterRow (nodesTable 4 cid star) 0).centralisation = some ⟨6, 6⟩) ∧
    ((allNodes path).Nodup ∧ (∀ e ∈ path, e.1 < 4 ∧ e.2 < 4 ∧ cid e.1 = cid e.2) ∧
      nodeDegree path 3 = 0 ∧
      (clusterRow (nodesTable 4 cid path) 0).centralisation = some ⟨4, 6⟩) ∧
    ((∀ e ∈ triple, e.1 ≠ e.2) ∧ (∀ e ∈ triple, e.1 < 3 ∧ e.2 < 3 ∧ cid e.1 = cid e.2) ∧
      ¬ (allNodes triple).Nodup ∧
      (clusterRow (nodesTable 3 cid triple) 0).centralisation = some ⟨3, 2⟩) := by
  decide

end SplinkVerif.C19B
