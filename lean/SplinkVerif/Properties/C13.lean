import SplinkVerif.Lemmas.Invariance
import SplinkVerif.Lemmas.InvarianceEM
import SplinkVerif.Properties.C01
/-!
# C13 — results are invariant under re-presentation of the same problem

Property theorems only; all are statements about the models that C01 (blocking),
C03 (EM) and C05 (clustering) already tie to the real code.  Each is a corollary
of the exactness theorem of the respective model: the conditions that
characterise the output are equivariant under the re-presentation, hence so is
the output.

`names_irrelevant` — **design fact, not a theorem.**  No model definition
receives a column name: blocking rules and comparison levels enter the models as
*outcome functions* (`Rule.eval : Nat → Nat → B3`, guard vectors of
`Score.Pair`), tables as functions of the record index.  A renaming of columns
(case changes, names that need quoting, SQL keywords) therefore cannot change
any model output, and there is nothing to state in Lean.  Whether the real code
produces the same outcome functions under a renaming is exactly what the
correspondence check `harness/props/c13.py` tests (F1, F4 were defects of this
kind).  The same holds for `materialise_*` flags, debug mode and the engine's
thread count: they are execution strategies of the same SQL and do not appear in
the models; they are covered by repetition in the correspondence check only.

`score_pair_symmetric_inputs` is NOT claimed: comparison levels need not be
symmetric in `l`/`r`; the orientation of a scored pair is fixed by blocking.
-/
namespace SplinkVerif.C13
open SplinkVerif SplinkVerif.Blocking SplinkVerif.CC SplinkVerif.EM

/-- The table whose record `i` is record `σ i` of `t`:
`{ m := t.m, key i := t.key (σ i), sd i := t.sd (σ i), part i n := t.part (σ i) n }`. -/
abbrev transportTable := @Lemmas.Inv.transportTable
/-- The rule seen on the re-listed records: `eval l r := q.eval (σ l) (σ r)`, same kind. -/
abbrev transportRule := @Lemmas.Inv.transportRule
/-- `{ t with part := part }` — same records, other salts. -/
abbrev withPart := @Lemmas.Inv.withPart
/-- `{ t with key := key }` — same records, other unique ids. -/
abbrev withKey := @Lemmas.Inv.withKey
/-- Every rule is symmetric in `l`/`r`: `∀ q ∈ rules, ∀ l r, q.eval l r = q.eval r l`. -/
abbrev SymRules := @Lemmas.Inv.SymRules
/-- `edges.map fun e => (σ e.1, σ e.2)`. -/
abbrev mapEdges := @Lemmas.Inv.mapEdges

/-- Row permutation.  Listing the records in another order (record `i` of the new
table is record `σ i` of the old one; `σ` maps the index range to itself) relabels
the emitted rows and changes nothing else — same pairs, same `match_key`. -/
theorem block_row_perm_invariant (lt : LinkType) (t : Table) (rules : List Rule) (σ : Nat → Nat)
    (hlt : C01.SelfJoin lt) (hsalt : C01.SaltOK t rules)
    (hσ : ∀ i, σ i < t.m ↔ i < t.m) (i l r : Nat) :
    (i, l, r) ∈ block lt (transportTable t σ) (rules.map (transportRule σ)) ↔
      (i, σ l, σ r) ∈ block lt t rules :=
  Lemmas.Inv.block_row_perm lt t rules σ hlt hsalt hσ i l r

/-- …and when `σ` is a permutation of the index range (inverse `τ`), every row of the
original output is the image of a row of the re-listed output. -/
theorem block_row_perm_onto (lt : LinkType) (t : Table) (rules : List Rule) (σ τ : Nat → Nat)
    (hlt : C01.SelfJoin lt) (hsalt : C01.SaltOK t rules)
    (hσ : ∀ i, σ i < t.m ↔ i < t.m) (hτ : ∀ i, i < t.m → σ (τ i) = i) (i l r : Nat) :
    (i, l, r) ∈ block lt t rules ↔
      l < t.m ∧ r < t.m ∧
        (i, τ l, τ r) ∈ block lt (transportTable t σ) (rules.map (transportRule σ)) :=
  Lemmas.Inv.block_row_perm_inv lt t rules σ τ hlt hsalt hσ hτ i l r

/-- Rule reordering.  Two rule lists that are permutations of each other emit the same
set of ordered pairs; only the `match_key` attribution may change. -/
theorem block_rule_reorder (lt : LinkType) (t : Table) (rules rules' : List Rule)
    (hlt : C01.SelfJoin lt) (hsalt : C01.SaltOK t rules) (hp : rules.Perm rules') (l r : Nat) :
    (∃ i, (i, l, r) ∈ block lt t rules) ↔ (∃ i, (i, l, r) ∈ block lt t rules') :=
  Lemmas.Inv.block_rule_reorder lt t rules rules' hlt hsalt hp l r

/-- Salting.  Any partition counts (`rules'` has the same outcome functions, any kinds)
and any salts (`part`) give the same rows up to order. -/
theorem block_salting_invariant (lt : LinkType) (t : Table) (part : Nat → Nat → Nat)
    (rules rules' : List Rule) (hlt : C01.SelfJoin lt)
    (hsalt : C01.SaltOK t rules) (hsalt' : C01.SaltOK (withPart t part) rules')
    (hev : rules.map (·.eval) = rules'.map (·.eval)) :
    (block lt t rules).Perm (block lt (withPart t part) rules') :=
  Lemmas.Inv.block_resalt lt t part rules rules' hlt hsalt hsalt' hev

/-- Order-preserving relabelling (or retyping) of unique ids: the blocked rows are
*identical* (every link type, every rule kind). -/
theorem key_relabel_equivariant (lt : LinkType) (t : Table) (rules : List Rule) (f : Nat → Nat)
    (hf : ∀ a b, a < b → f a < f b) :
    block lt (withKey t fun i => f (t.key i)) rules = block lt t rules :=
  Lemmas.Inv.block_key_mono lt t rules f hf

/-- Arbitrary relabelling of unique ids (any new distinct ids): for rules symmetric in
`l`/`r` the same unordered pairs are emitted under the same `match_key`; only the
orientation of a pair may flip. -/
theorem key_relabel_unordered (lt : LinkType) (t : Table) (key' : Nat → Nat) (rules : List Rule)
    (hlt : C01.SelfJoin lt) (hne : rules ≠ []) (hsalt : C01.SaltOK t rules)
    (hwf : C01.WFKeys t) (hwf' : C01.WFKeys (withKey t key')) (hs : SymRules rules) (i l r : Nat) :
    ((i, l, r) ∈ block lt (withKey t key') rules ∨ (i, r, l) ∈ block lt (withKey t key') rules) ↔
      ((i, l, r) ∈ block lt t rules ∨ (i, r, l) ∈ block lt t rules) :=
  Lemmas.Inv.block_key_bijection lt t key' rules hlt hne hsalt hwf hwf' hs i l r

/-- Two input tables under `link_only` (backend `two_dataset_link_only`) ≡ one
concatenated table with a source-dataset column under `link_only` (restatement of
`C01.block_two_dataset_eq_link_only`). -/
theorem two_table_vs_source_column (t : Table) (rules : List Rule) (hne : rules ≠ [])
    (hsalt : C01.SaltOK t rules)
    (htwo : ∀ a b c, a < t.m → b < t.m → c < t.m → t.sd a = t.sd b ∨ t.sd b = t.sd c ∨ t.sd a = t.sd c)
    (hord : ∀ a b, a < t.m → b < t.m → t.sd a < t.sd b → t.key a < t.key b)
    (row : Blocking.Row) :
    row ∈ block .twoDatasetLinkOnly t rules ↔ row ∈ block .linkOnly t rules :=
  C01.block_two_dataset_eq_link_only t rules hne hsalt htwo hord row

/-- Clustering under an arbitrary relabelling of the nodes (a bijection `σ` of `0..n-1`
with inverse `τ`): the partition — the same-cluster relation — is preserved. -/
theorem cc_partition_relabel_invariant (n : Nat) (edges : List Edge) (σ τ : Nat → Nat)
    (hE : ∀ e ∈ edges, e.1 < n ∧ e.2 < n)
    (hσ : ∀ i, i < n → σ i < n) (hτ : ∀ i, i < n → τ i < n)
    (hτσ : ∀ i, i < n → τ (σ i) = i)
    (i j ci cj ci' cj' : Nat)
    (hi : (i, ci) ∈ cluster n edges) (hj : (j, cj) ∈ cluster n edges)
    (hi' : (σ i, ci') ∈ cluster n (mapEdges σ edges))
    (hj' : (σ j, cj') ∈ cluster n (mapEdges σ edges)) :
    ci' = cj' ↔ ci = cj :=
  Lemmas.Inv.cc_partition_relabel n edges σ τ hE hσ hτ hτσ i j ci cj ci' cj' hi hj hi' hj'

/-- …and if the relabelling is monotone within every connected component (in particular
if it preserves the order of ids) the cluster ids are relabelled along with the nodes. -/
theorem cc_relabel_invariant (n : Nat) (edges : List Edge) (σ τ : Nat → Nat)
    (hE : ∀ e ∈ edges, e.1 < n ∧ e.2 < n)
    (hσ : ∀ i, i < n → σ i < n) (hτ : ∀ i, i < n → τ i < n)
    (hτσ : ∀ i, i < n → τ (σ i) = i) (hστ : ∀ i, i < n → σ (τ i) = i)
    (hmono : ∀ a b, Reach (Lemmas.Adj n edges) a b → a ≤ b → σ a ≤ σ b)
    (i c c' : Nat) (hi : (i, c) ∈ cluster n edges)
    (hi' : (σ i, c') ∈ cluster n (mapEdges σ edges)) : c' = σ c :=
  Lemmas.Inv.cc_relabel_mono n edges σ τ hE hσ hτ hτσ hστ hmono i c c' hi hi'

/-- EM under a permutation of the comparison-vector rows (over ℝ): the M-step counts,
the new prior, the new `m`/`u` of every level and hence the whole EM step are unchanged. -/
theorem em_row_perm_invariant (sess : Session) (θ : Params ℝ) (rows rows' : List (EM.Row ℝ))
    (hp : rows.Perm rows') :
    (∀ ci v, mCount θ rows ci v = mCount θ rows' ci v) ∧
    (∀ ci v, uCount θ rows ci v = uCount θ rows' ci v) ∧
    lambdaNew θ rows = lambdaNew θ rows' ∧
    (∀ ci v, newM θ rows ci v = newM θ rows' ci v) ∧
    (∀ ci v, newU θ rows ci v = newU θ rows' ci v) ∧
    EM.step sess θ rows = EM.step sess θ rows' :=
  ⟨Lemmas.InvEM.mCount_perm θ hp, Lemmas.InvEM.uCount_perm θ hp, Lemmas.InvEM.lambdaNew_perm θ hp,
    Lemmas.InvEM.newM_perm θ hp, Lemmas.InvEM.newU_perm θ hp, Lemmas.InvEM.step_perm sess θ hp⟩

/-- Non-vacuity (blocking): three records with keys 5 < 7 < 9 listed as `[9, 5, 7]`
(`σ = (0 1 2) ↦ (2 0 1)`), rule TRUE on the records 0 and 2 of the original listing:
the original emits `(0, 0, 2)`, the re-listed table emits `(0, 1, 0)` = `(0, σ⁻¹ 0, σ⁻¹ 2)`;
an order-reversing relabelling of the ids flips the orientation only. -/
example :
    let t : Table := { m := 3, key := fun i => 5 + 2 * i, sd := fun _ => 0, part := fun i n => i % n }
    let q : Rule := { kind := .salted 2, eval := fun l r => some ((l == 0 && r == 2) || (l == 2 && r == 0)) }
    let σ : Nat → Nat := fun i => (i + 2) % 3
    block .dedupeOnly t [q] = [(0, 0, 2)] ∧
    block .dedupeOnly (transportTable t σ) [transportRule σ q] = [(0, 1, 0)] ∧
    block .dedupeOnly (withKey t fun i => 10 - i) [q] = [(0, 2, 0)] := by decide

/-- Non-vacuity (clustering): path 3–1–0 and isolated 2; swapping the labels 0 and 3
keeps the partition `{0,1,3},{2}`; the cluster id stays the least member. -/
example :
    let σ : Nat → Nat := fun i => if i = 0 then 3 else if i = 3 then 0 else i
    cluster 4 [(3, 1), (1, 0)] = [(0, 0), (1, 0), (2, 2), (3, 0)] ∧
    cluster 4 (mapEdges σ [(3, 1), (1, 0)]) = [(0, 0), (1, 0), (2, 2), (3, 0)] := by decide

end SplinkVerif.C13
