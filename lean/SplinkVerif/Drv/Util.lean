import Lean.Data.Json
/-! JSON helpers for the line-protocol driver. -/
namespace SplinkVerif.Drv
open Lean

def getNat (j : Json) (k : String) : Except String Nat := do
  let v ← j.getObjVal? k
  v.getNat?

def getInt (j : Json) (k : String) : Except String Int := do
  let v ← j.getObjVal? k
  v.getInt?

def getStr (j : Json) (k : String) : Except String String := do
  let v ← j.getObjVal? k
  v.getStr?

def getArr (j : Json) (k : String) : Except String (Array Json) := do
  let v ← j.getObjVal? k
  v.getArr?

def getBool (j : Json) (k : String) : Except String Bool := do
  let v ← j.getObjVal? k
  v.getBool?

/-- Floats cross the protocol as IEEE-754 bit patterns (decimal `Nat`). -/
def floatOfBits (j : Json) : Except String Float := do
  let n ← j.getNat?
  pure (Float.ofBits n.toUInt64)

def bitsOfFloat (x : Float) : Json := Json.num (JsonNumber.fromNat x.toBits.toNat)

/-- `null` ↦ `none`. -/
def optOf {α} (f : Json → Except String α) (j : Json) : Except String (Option α) :=
  match j with
  | Json.null => pure none
  | _ => some <$> f j

def natPair (j : Json) : Except String (Nat × Nat) := do
  let a ← j.getArr?
  if a.size < 2 then throw "pair expected"
  pure (← a[0]!.getNat?, ← a[1]!.getNat?)

def jsonOfNatPair (p : Nat × Nat) : Json := Json.arr #[Json.num p.1, Json.num p.2]

end SplinkVerif.Drv
