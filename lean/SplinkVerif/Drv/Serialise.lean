import SplinkVerif.Drv.Util
import SplinkVerif.Model.Serialise
/-! Driver ops for `Model/Serialise.lean` (C09).

Numbers cross as `{"i": int}` (Python int) or `{"f": bits}` (Python float, IEEE bits).
Dictionaries use Splink's own key names; an absent key and `null` both decode to `none`.
Object state uses the field names of the model structures. -/
namespace SplinkVerif.Drv
open Lean SplinkVerif SplinkVerif.Serialise

private def numOf (j : Json) : Except String Num := do
  match j.getObjVal? "i" with
  | .ok v => pure (.int (← v.getInt?))
  | .error _ => pure (.flt (← (← j.getObjVal? "f").getNat?))

private def jsonOfNum : Num → Json
  | .int i => Json.mkObj [("i", Json.num (JsonNumber.fromInt i))]
  | .flt b => Json.mkObj [("f", Json.num (JsonNumber.fromNat b))]

private def optKey {α} (f : Json → Except String α) (j : Json) (k : String) : Except String (Option α) :=
  optOf f (j.getObjValD k)

private def strOf (j : Json) : Except String String := j.getStr?
private def boolOf (j : Json) : Except String Bool := j.getBool?
/-- a raw natural or an int token `{"i": n}` -/
private def natOf (j : Json) : Except String Nat :=
  match j.getObjVal? "i" with
  | .ok v => v.getNat?
  | .error _ => j.getNat?
private def strListOf (j : Json) : Except String (List String) := do
  (← j.getArr?).toList.mapM strOf

private def optJson {α} (f : α → Json) : Option α → Json
  | some a => f a
  | none => Json.null

/-- object fields with `none` left out (as Python omits the key) -/
private def mkObjOpt (kvs : List (String × Option Json)) : Json :=
  Json.mkObj (kvs.filterMap fun (k, v) => v.map fun j => (k, j))

private def jStrs (l : List String) : Json := Json.arr (l.map Json.str).toArray

-- ---------------------------------------------------------------- dictionaries
private def levelDictOf (j : Json) : Except String LevelDict := do
  pure { sql_condition := ← getStr j "sql_condition"
         label_for_charts := ← optKey strOf j "label_for_charts"
         m_probability := ← optKey numOf j "m_probability"
         u_probability := ← optKey numOf j "u_probability"
         fix_m_probability := ← optKey boolOf j "fix_m_probability"
         fix_u_probability := ← optKey boolOf j "fix_u_probability"
         tf_adjustment_column := ← optKey strOf j "tf_adjustment_column"
         tf_minimum_u_value := ← optKey numOf j "tf_minimum_u_value"
         tf_adjustment_weight := ← optKey numOf j "tf_adjustment_weight"
         is_null_level := ← optKey boolOf j "is_null_level"
         disable_tf_exact_match_detection := ← optKey boolOf j "disable_tf_exact_match_detection" }

private def jsonOfLevelDict (d : LevelDict) : Json :=
  mkObjOpt [("sql_condition", some (Json.str d.sql_condition)),
    ("label_for_charts", d.label_for_charts.map Json.str),
    ("m_probability", d.m_probability.map jsonOfNum),
    ("u_probability", d.u_probability.map jsonOfNum),
    ("fix_m_probability", d.fix_m_probability.map Json.bool),
    ("fix_u_probability", d.fix_u_probability.map Json.bool),
    ("tf_adjustment_column", d.tf_adjustment_column.map Json.str),
    ("tf_minimum_u_value", d.tf_minimum_u_value.map jsonOfNum),
    ("tf_adjustment_weight", d.tf_adjustment_weight.map jsonOfNum),
    ("is_null_level", d.is_null_level.map Json.bool),
    ("disable_tf_exact_match_detection", d.disable_tf_exact_match_detection.map Json.bool)]

private def comparisonDictOf (j : Json) : Except String ComparisonDict := do
  pure { output_column_name := ← optKey strOf j "output_column_name"
         comparison_levels := ← (← getArr j "comparison_levels").toList.mapM levelDictOf
         comparison_description := ← optKey strOf j "comparison_description" }

private def jsonOfComparisonDict (d : ComparisonDict) : Json :=
  mkObjOpt [("output_column_name", d.output_column_name.map Json.str),
    ("comparison_levels", some (Json.arr (d.comparison_levels.map jsonOfLevelDict).toArray)),
    ("comparison_description", d.comparison_description.map Json.str)]

private def ruleDictOf (j : Json) : Except String RuleDict := do
  pure { blocking_rule := ← getStr j "blocking_rule"
         sql_dialect := ← optKey strOf j "sql_dialect"
         salting_partitions := ← optKey natOf j "salting_partitions"
         arrays_to_explode := ← optKey strListOf j "arrays_to_explode" }

private def jsonOfRuleDict (d : RuleDict) : Json :=
  mkObjOpt [("blocking_rule", some (Json.str d.blocking_rule)),
    ("sql_dialect", d.sql_dialect.map Json.str),
    ("salting_partitions", d.salting_partitions.map fun (n : Nat) => jsonOfNum (.int n)),
    ("arrays_to_explode", d.arrays_to_explode.map jStrs)]

private def settingsDictOf (j : Json) : Except String SettingsDict := do
  let rules ← match j.getObjVal? "blocking_rules_to_generate_predictions" with
    | .ok v => (← v.getArr?).toList.mapM ruleDictOf
    | .error _ => pure []
  let comps ← match j.getObjVal? "comparisons" with
    | .ok v => (← v.getArr?).toList.mapM comparisonDictOf
    | .error _ => pure []
  pure { link_type := ← getStr j "link_type"
         probability_two_random_records_match := ← optKey numOf j "probability_two_random_records_match"
         retain_matching_columns := ← optKey boolOf j "retain_matching_columns"
         retain_intermediate_calculation_columns := ← optKey boolOf j "retain_intermediate_calculation_columns"
         additional_columns_to_retain := ← optKey strListOf j "additional_columns_to_retain"
         sql_dialect := ← optKey strOf j "sql_dialect"
         linker_uid := ← optKey strOf j "linker_uid"
         em_convergence := ← optKey numOf j "em_convergence"
         max_iterations := ← optKey numOf j "max_iterations"
         bayes_factor_column_prefix := ← optKey strOf j "bayes_factor_column_prefix"
         term_frequency_adjustment_column_prefix := ← optKey strOf j "term_frequency_adjustment_column_prefix"
         comparison_vector_value_column_prefix := ← optKey strOf j "comparison_vector_value_column_prefix"
         unique_id_column_name := ← optKey strOf j "unique_id_column_name"
         source_dataset_column_name := ← optKey strOf j "source_dataset_column_name"
         blocking_rules_to_generate_predictions := rules
         comparisons := comps }

private def jsonOfSettingsDict (d : SettingsDict) : Json :=
  mkObjOpt [("link_type", some (Json.str d.link_type)),
    ("probability_two_random_records_match", d.probability_two_random_records_match.map jsonOfNum),
    ("retain_matching_columns", d.retain_matching_columns.map Json.bool),
    ("retain_intermediate_calculation_columns", d.retain_intermediate_calculation_columns.map Json.bool),
    ("additional_columns_to_retain", d.additional_columns_to_retain.map jStrs),
    ("sql_dialect", d.sql_dialect.map Json.str),
    ("linker_uid", d.linker_uid.map Json.str),
    ("em_convergence", d.em_convergence.map jsonOfNum),
    ("max_iterations", d.max_iterations.map jsonOfNum),
    ("bayes_factor_column_prefix", d.bayes_factor_column_prefix.map Json.str),
    ("term_frequency_adjustment_column_prefix", d.term_frequency_adjustment_column_prefix.map Json.str),
    ("comparison_vector_value_column_prefix", d.comparison_vector_value_column_prefix.map Json.str),
    ("unique_id_column_name", d.unique_id_column_name.map Json.str),
    ("source_dataset_column_name", d.source_dataset_column_name.map Json.str),
    ("blocking_rules_to_generate_predictions",
      some (Json.arr (d.blocking_rules_to_generate_predictions.map jsonOfRuleDict).toArray)),
    ("comparisons", some (Json.arr (d.comparisons.map jsonOfComparisonDict).toArray))]

-- ---------------------------------------------------------------- object state
private def probOf (j : Json) : Except String Prob :=
  match j with
  | Json.null => pure .unset
  | Json.str _ => pure .notObserved
  | _ => do pure (.val (← numOf j))

private def jsonOfProb : Prob → Json
  | .unset => Json.null
  | .notObserved => Json.str "NOT_OBSERVED"
  | .val n => jsonOfNum n

private def levelOf (j : Json) : Except String Level := do
  pure { sql := ← getStr j "sql", label := ← optKey strOf j "label", isNull := ← getBool j "isNull"
         tfCol := ← optKey strOf j "tfCol", tfWeight := ← numOf (j.getObjValD "tfWeight")
         tfMinU := ← numOf (j.getObjValD "tfMinU"), disableTf := ← getBool j "disableTf"
         m := ← probOf (j.getObjValD "m"), u := ← probOf (j.getObjValD "u")
         fixM := ← getBool j "fixM", fixU := ← getBool j "fixU" }

private def jsonOfLevel (l : Level) : Json :=
  Json.mkObj [("sql", Json.str l.sql), ("label", optJson Json.str l.label), ("isNull", Json.bool l.isNull),
    ("tfCol", optJson Json.str l.tfCol), ("tfWeight", jsonOfNum l.tfWeight), ("tfMinU", jsonOfNum l.tfMinU),
    ("disableTf", Json.bool l.disableTf), ("m", jsonOfProb l.m), ("u", jsonOfProb l.u),
    ("fixM", Json.bool l.fixM), ("fixU", Json.bool l.fixU), ("wf", Json.bool l.wf)]

private def comparisonOf (j : Json) : Except String Comparison := do
  pure { outputColumnName := ← getStr j "outputColumnName", description := ← getStr j "description"
         levels := ← (← getArr j "levels").toList.mapM levelOf }

private def jsonOfComparison (c : Comparison) : Json :=
  Json.mkObj [("outputColumnName", Json.str c.outputColumnName), ("description", Json.str c.description),
    ("levels", Json.arr (c.levels.map jsonOfLevel).toArray)]

private def ruleOf (j : Json) : Except String Rule := do
  let sql ← getStr j "sql"
  let d ← getStr j "dialect"
  match ← getStr j "kind" with
  | "salted" => pure (.salted sql d (← getNat j "partitions"))
  | "exploding" => pure (.exploding sql d (← strListOf (j.getObjValD "cols")))
  | _ => pure (.plain sql d)

private def jsonOfRule : Rule → Json
  | .plain s d => Json.mkObj [("kind", "plain"), ("sql", Json.str s), ("dialect", Json.str d)]
  | .salted s d n => Json.mkObj [("kind", "salted"), ("sql", Json.str s), ("dialect", Json.str d),
      ("partitions", Json.num n)]
  | .exploding s d cs => Json.mkObj [("kind", "exploding"), ("sql", Json.str s), ("dialect", Json.str d),
      ("cols", jStrs cs)]

private def settingsOf (j : Json) : Except String Settings := do
  pure { linkType := ← getStr j "linkType", prior := ← numOf (j.getObjValD "prior")
         retainMatching := ← getBool j "retainMatching", retainIntermediate := ← getBool j "retainIntermediate"
         additionalCols := ← strListOf (j.getObjValD "additionalCols"), dialect := ← getStr j "dialect"
         linkerUid := ← optKey strOf j "linkerUid", emConvergence := ← numOf (j.getObjValD "emConvergence")
         maxIterations := ← numOf (j.getObjValD "maxIterations"), bfPrefix := ← getStr j "bfPrefix"
         tfPrefix := ← getStr j "tfPrefix", gammaPrefix := ← getStr j "gammaPrefix", uidCol := ← getStr j "uidCol"
         sdsCol := ← getStr j "sdsCol", rules := ← (← getArr j "rules").toList.mapM ruleOf
         comparisons := ← (← getArr j "comparisons").toList.mapM comparisonOf }

private def jsonOfSettings (s : Settings) : Json :=
  Json.mkObj [("linkType", Json.str s.linkType), ("prior", jsonOfNum s.prior),
    ("retainMatching", Json.bool s.retainMatching), ("retainIntermediate", Json.bool s.retainIntermediate),
    ("additionalCols", jStrs s.additionalCols), ("dialect", Json.str s.dialect),
    ("linkerUid", optJson Json.str s.linkerUid), ("emConvergence", jsonOfNum s.emConvergence),
    ("maxIterations", jsonOfNum s.maxIterations), ("bfPrefix", Json.str s.bfPrefix),
    ("tfPrefix", Json.str s.tfPrefix), ("gammaPrefix", Json.str s.gammaPrefix), ("uidCol", Json.str s.uidCol),
    ("sdsCol", Json.str s.sdsCol), ("rules", Json.arr (s.rules.map jsonOfRule).toArray),
    ("comparisons", Json.arr (s.comparisons.map jsonOfComparison).toArray)]

private def versionOf (s : String) : Version := if s == "patched" then .patched else .current

/-- `{"op":"ser_save","state":{…},"backend":b}` → `Settings.asDict` and both well-formedness verdicts. -/
def handleSerSave (j : Json) : Except String Json := do
  let s ← settingsOf (← j.getObjVal? "state")
  let b ← getStr j "backend"
  pure <| Json.mkObj [("dict", jsonOfSettingsDict s.asDict),
    ("wfCurrent", Json.bool (s.wf .current b)), ("wfPatched", Json.bool (s.wf .patched b))]

/-- `{"op":"ser_load","dict":{…},"backend":b,"uid":u,"defName":n}` → for both versions of
`create_description`: the constructed state and the dictionary it would save. -/
def handleSerLoad (j : Json) : Except String Json := do
  let d ← settingsDictOf (← j.getObjVal? "dict")
  let b ← getStr j "backend"
  let uid ← getStr j "uid"
  let dn ← getStr j "defName"
  let one (v : String) : Json :=
    let s := Settings.fromDict (versionOf v) (fun _ => dn) b uid d
    Json.mkObj [("state", jsonOfSettings s), ("dict", jsonOfSettingsDict s.asDict),
      ("wf", Json.bool (s.wf (versionOf v) b))]
  pure <| Json.mkObj [("current", one "current"), ("patched", one "patched")]

end SplinkVerif.Drv
