import SplinkVerif.Drv.Util
import SplinkVerif.Model.CCSql
import SplinkVerif.Model.MultiSql
import SplinkVerif.Model.CC
namespace SplinkVerif.Drv
open Lean SplinkVerif SplinkVerif.Rel

def jsonOfVal : Val → Json
  | .null => Json.null
  | .int i => Json.num (JsonNumber.fromInt i)
  | .bool b => Json.bool b
  | .str s => Json.str s
  | .rat q => Json.arr #[Json.num (JsonNumber.fromInt q.num), Json.num (JsonNumber.fromNat q.den)]

/-- `{"op":"cc_sql","n":N,"edges":[[l,r,key],...],"thr":key|null}`: evaluates the *regenerated* SQL statements
(Generated/CCSql.lean) with `Rel.eval` under the control flow of `Model/CCSql.lean`. -/
def handleCCSql (j : Json) : Except String Json := do
  let n ← getNat j "n"
  let es ← getArr j "edges"
  let thr ← optOf (fun v => v.getInt?) (j.getObjValD "thr")
  let edges ← es.toList.mapM fun e => do
    let a ← e.getArr?
    if a.size < 3 then throw "edge [l,r,key] expected"
    pure ((← a[0]!.getNat?), (← a[1]!.getNat?), (← a[2]!.getInt?))
  let fuel := CC.fuel n
  let rows := CCSql.cluster (CCSql.nodeRows n) (CCSql.edgeRows edges) (thr.map Val.int) fuel
  let tr := CCSql.trace (CCSql.nodeRows n) (CCSql.edgeRows edges) (thr.map Val.int) fuel
  pure <| Json.mkObj [("rows", Json.arr (rows.map fun r => Json.arr (r.map jsonOfVal).toArray).toArray),
                      ("trace", Json.arr (tr.map fun (k : Nat) => Json.num k).toArray)]

/-- `{"op":"multi_sql","n":N,"edges":[[l,r,key],...],"thrs":[key,...] (ascending),"one":key}` -/
def handleMultiSql (j : Json) : Except String Json := do
  let n ← getNat j "n"
  let es ← getArr j "edges"
  let one ← getInt j "one"
  let thrs ← (← getArr j "thrs").toList.mapM fun v => v.getInt?
  let edges ← es.toList.mapM fun e => do
    let a ← e.getArr?
    if a.size < 3 then throw "edge [l,r,key] expected"
    pure ((← a[0]!.getNat?), (← a[1]!.getNat?), (← a[2]!.getInt?))
  let res := MultiSql.multi (CCSql.nodeRows n) (CCSql.edgeRows edges) (Val.int one) (CC.fuel n) (thrs.map Val.int)
  pure <| Json.mkObj [("results", Json.arr (res.map fun rows =>
    Json.arr (rows.map fun r => Json.arr (r.map jsonOfVal).toArray).toArray).toArray)]
end SplinkVerif.Drv
