import SplinkVerif.Drv.Util
import SplinkVerif.Model.CCSql
import SplinkVerif.Model.MultiSql
import SplinkVerif.Model.GMSql
import SplinkVerif.Model.GraphMetrics
import SplinkVerif.Model.CC
namespace SplinkVerif.Drv
open Lean SplinkVerif SplinkVerif.Rel

def jsonOfVal : Val → Json
  | .null => Json.null
  | .int i => Json.num (JsonNumber.fromInt i)
  | .bool b => Json.bool b
  | .str s => Json.str s
  | .rat q => Json.arr #[Json.num (JsonNumber.fromInt q.num), Json.num (JsonNumber.fromNat q.den)]

/-- `{"op":"cc_sql","n":N,"edges":[[l,r,key],...],"thr":key|null}`: evaluates the *regenerated* SQL statements
(Generated/CCSql.lean) with `Rel.eval` under the control flow of `Model/CCSql.lean`. -/
def handleCCSql (j : Json) : Except String Json := do
  let n ← getNat j "n"
  let es ← getArr j "edges"
  let thr ← optOf (fun v => v.getInt?) (j.getObjValD "thr")
  let edges ← es.toList.mapM fun e => do
    let a ← e.getArr?
    if a.size < 3 then throw "edge [l,r,key] expected"
    pure ((← a[0]!.getNat?), (← a[1]!.getNat?), (← a[2]!.getInt?))
  let fuel := CC.fuel n
  let rows := CCSql.cluster (CCSql.nodeRows n) (CCSql.edgeRows edges) (thr.map Val.int) fuel
  let tr := CCSql.trace (CCSql.nodeRows n) (CCSql.edgeRows edges) (thr.map Val.int) fuel
  pure <| Json.mkObj [("rows", Json.arr (rows.map fun r => Json.arr (r.map jsonOfVal).toArray).toArray),
                      ("trace", Json.arr (tr.map fun (k : Nat) => Json.num k).toArray)]

/-- `{"op":"multi_sql","n":N,"edges":[[l,r,key],...],"thrs":[key,...] (ascending),"one":key}` -/
def handleMultiSql (j : Json) : Except String Json := do
  let n ← getNat j "n"
  let es ← getArr j "edges"
  let one ← getInt j "one"
  let thrs ← (← getArr j "thrs").toList.mapM fun v => v.getInt?
  let edges ← es.toList.mapM fun e => do
    let a ← e.getArr?
    if a.size < 3 then throw "edge [l,r,key] expected"
    pure ((← a[0]!.getNat?), (← a[1]!.getNat?), (← a[2]!.getInt?))
  let res := MultiSql.multi (CCSql.nodeRows n) (CCSql.edgeRows edges) (Val.int one) (CC.fuel n) (thrs.map Val.int)
  pure <| Json.mkObj [("results", Json.arr (res.map fun rows =>
    Json.arr (rows.map fun r => Json.arr (r.map jsonOfVal).toArray).toArray).toArray)]

/-- `{"op":"gm_sql","n":N,"cid":[...],"edges":[[l,r,key],...],"thr":key,"order":[node,...]}`: the regenerated SQL of
compute_graph_metrics (Generated/GMSql.lean) under `Rel.eval`; bridges from the driver's `naiveBridges`
(proved to meet `BridgeSpec`). -/
def handleGMSql (j : Json) : Except String Json := do
  let n ← getNat j "n"
  let cids ← (← getArr j "cid").mapM (·.getNat?)
  let es ← getArr j "edges"
  let thr ← getInt j "thr"
  let order ← (← getArr j "order").toList.mapM (·.getNat?)
  let edges ← es.toList.mapM fun e => do
    let a ← e.getArr?
    if a.size < 3 then throw "edge [l,r,key] expected"
    pure ((← a[0]!.getNat?), (← a[1]!.getNat?), (← a[2]!.getInt?))
  let predict : List Row := edges.map fun e => [Val.int (e.1 : Int), Val.int (e.2.1 : Int), Val.int e.2.2]
  let clustered : List Row := (List.range n).map fun (i : Nat) =>
    [Val.int ((cids.getD i 0 : Nat) : Int), Val.int (i : Int), Val.str "x"]
  let nodes := GMSql.nodes predict clustered (Val.int thr)
  let natOf : Val → Nat := fun v => match v with | .int i => i.toNat | _ => 0
  let finder : List Row → List Nat := fun em =>
    GraphMetrics.naiveBridges (em.map fun r => (natOf (r.getD 0 .null), natOf (r.getD 1 .null)))
  let etab := GMSql.edges finder predict (order.map fun (i : Nat) => Val.int (i : Int)) (Val.int thr)
  let ctab := GMSql.clusters nodes
  let enc := fun (rows : List Row) => Json.arr (rows.map fun r => Json.arr (r.map jsonOfVal).toArray).toArray
  pure <| Json.mkObj [("nodes", enc nodes), ("edges", enc etab), ("clusters", enc ctab)]
end SplinkVerif.Drv
