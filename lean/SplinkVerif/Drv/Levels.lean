import SplinkVerif.Drv.Util
import SplinkVerif.Model.Levels
/-! Driver ops for `Model/Levels.lean` (C16). -/
namespace SplinkVerif.Drv
open Lean SplinkVerif SplinkVerif.Levels

namespace LevelsJson

def qOf (j : Json) : Except String Q := do
  let a ← j.getArr?
  if a.size < 2 then throw "q [num, den] expected"
  pure ⟨← a[0]!.getInt?, ← a[1]!.getNat?⟩

def optStr (j : Json) : Except String (Option String) := optOf (fun x => x.getStr?) j

def opOf (j : Json) : Except String Op := do
  match ← getStr j "op" with
  | "regexExtract" => pure (.regexExtract (← getStr j "pattern") (← getNat j "group"))
  | "tryParseDate" => pure (.tryParseDate (← optStr (j.getObjValD "fmt")))
  | "tryParseTimestamp" => pure (.tryParseTimestamp (← optStr (j.getObjValD "fmt")))
  | "castToString" => pure .castToString
  | "lower" => pure .lower
  | "substr" => pure (.substr (← getNat j "start") (← getNat j "len"))
  | "nullif" => pure (.nullif (← getStr j "v"))
  | "arrayElement" => pure (.arrayElement (← getBool j "first"))
  | o => throw s!"unknown op {o}"

def colOf (j : Json) : Except String ColExpr := do
  let ops ← (← getArr j "ops").toList.mapM opOf
  pure ⟨← getStr j "base", ops⟩

def valOf (j : Json) : Except String Val := do
  match j with
  | Json.null => pure .null
  | _ =>
    if let .ok s := j.getObjVal? "s" then return .str (← s.getStr?)
    if let .ok i := j.getObjVal? "i" then return .int (← i.getInt?)
    if let .ok q := j.getObjVal? "q" then return .rat (← qOf q)
    if let .ok a := j.getObjVal? "sa" then return .strArray (← (← a.getArr?).toList.mapM (fun x => x.getStr?))
    if let .ok a := j.getObjVal? "qa" then return .ratArray (← (← a.getArr?).toList.mapM qOf)
    throw "bad value"

def sideOf : String → Except String Side
  | "left" => pure .left | "right" => pure .right | "both" => pure .both | s => throw s!"bad side {s}"

def metricOf : String → Except String StrMetric
  | "levenshtein" => pure .levenshtein | "damerau_levenshtein" => pure .damerauLevenshtein
  | "jaro_winkler" => pure .jaroWinkler | "jaro" => pure .jaro | s => throw s!"bad metric {s}"

def unitOf : String → Except String TimeUnit
  | "second" => pure .second | "minute" => pure .minute | "hour" => pure .hour | "day" => pure .day
  | "month" => pure .month | "year" => pure .year | s => throw s!"bad unit {s}"

partial def levelOf (j : Json) : Except String LevelKind := do
  let c := fun (k : String) => do colOf (← j.getObjVal? k)
  let t := do qOf (← j.getObjVal? "t")
  match ← getStr j "k" with
  | "null" => pure (.null (← c "c"))
  | "else_" => pure .else_
  | "custom" => pure (.custom (← getStr j "sql"))
  | "exact" => pure (.exact (← c "c"))
  | "literal" => pure (.literal (← c "c") (← valOf (j.getObjValD "v")) (← sideOf (← getStr j "side")))
  | "columnsReversed" => pure (.columnsReversed (← c "c1") (← c "c2") (← getBool j "sym"))
  | "levenshtein" => pure (.levenshtein (← c "c") (← t))
  | "damerauLevenshtein" => pure (.damerauLevenshtein (← c "c") (← t))
  | "dlOrLev" => pure (.dlOrLev (← c "c") (← t))
  | "jaroWinkler" => pure (.jaroWinkler (← c "c") (← t))
  | "jaro" => pure (.jaro (← c "c") (← t))
  | "jaccard" => pure (.jaccard (← c "c") (← t))
  | "distanceFunction" => pure (.distanceFunction (← c "c") (← getStr j "fn") (← t) (← getBool j "hi"))
  | "pairwise" => pure (.pairwise (← c "c") (← metricOf (← getStr j "m")) (← t))
  | "absoluteTimeDifference" =>
    pure (.absoluteTimeDifference (← c "c") (← getBool j "isStr") (← t) (← unitOf (← getStr j "unit")) (← optStr (j.getObjValD "fmt")))
  | "absoluteDateDifference" =>
    pure (.absoluteDateDifference (← c "c") (← getBool j "isStr") (← t) (← unitOf (← getStr j "unit")) (← optStr (j.getObjValD "fmt")))
  | "distanceInKm" => pure (.distanceInKm (← c "lat") (← c "long") (← t) (← getBool j "nn"))
  | "cosineSimilarity" => pure (.cosineSimilarity (← c "c") (← t))
  | "arrayIntersect" => pure (.arrayIntersect (← c "c") (← t))
  | "arraySubset" => pure (.arraySubset (← c "c") (← getBool j "e"))
  | "percentageDifference" => pure (.percentageDifference (← c "c") (← t))
  | "absoluteDifference" => pure (.absoluteDifference (← c "c") (← t))
  | "and" => pure (.and (← levelOf (← j.getObjVal? "a")) (← levelOf (← j.getObjVal? "b")))
  | "or" => pure (.or (← levelOf (← j.getObjVal? "a")) (← levelOf (← j.getObjVal? "b")))
  | "not" => pure (.not (← levelOf (← j.getObjVal? "a")))
  | k => throw s!"unknown level kind {k}"

def envOf (j : Json) : Except String Env := do
  let ps ← (← j.getArr?).toList.mapM fun p => do
    let a ← p.getArr?
    if a.size < 2 then throw "[col, val] expected"
    pure ((← colOf a[0]!), (← valOf a[1]!))
  pure fun c => ((ps.find? (fun p => p.1 == c)).map (·.2)).getD .null

def ratToFloat (x : Rat) : Float := Float.ofInt x.num / Float.ofNat x.den

/-- Round a non-negative float to a rational with 12 decimals (enough for the 1e-9 boundary exclusion). -/
def floatToRat (x : Float) : Option Rat :=
  if x.isNaN || x.isInf then none
  else
    let neg := x < 0
    let y := (Float.abs x * 1e12).round.toUInt64.toNat
    some (mkRat (if neg then -(y : Int) else (y : Int)) 1000000000000)

def radians (x : Float) : Float := x * 3.141592653589793 / 180.0

/-- `great_circle_distance_km_sql`, in IEEE doubles, with the same clipping. -/
def kmFloat (latL latR longL longR : Rat) : Option Rat :=
  let a := ratToFloat latL; let b := ratToFloat latR; let c := ratToFloat longL; let d := ratToFloat longR
  let p := Float.sin (radians a) * Float.sin (radians b) + Float.cos (radians a) * Float.cos (radians b) * Float.cos (radians (d - c))
  floatToRat (Float.acos (clip p) * 6371.0)

def cosineFloat (a b : List Q) : Option Rat :=
  let fa := a.map (fun q => ratToFloat q.toRat)
  let fb := b.map (fun q => ratToFloat q.toRat)
  if fa.length != fb.length then none else
  let dot := (fa.zip fb).foldl (fun s p => s + p.1 * p.2) 0.0
  let na := fa.foldl (fun s x => s + x * x) 0.0
  let nb := fb.foldl (fun s x => s + x * x) 0.0
  floatToRat (dot / (Float.sqrt na * Float.sqrt nb))

def fnMetric (name : String) (a b : Val) : Option Rat :=
  match name with
  | "levenshtein" => strDist (natDist lev) a b
  | "damerau_levenshtein" => strDist (natDist damerau) a b
  | "jaro_winkler_similarity" | "jaro_winkler" => strDist (fun x y => some (jaroWinklerSim x y)) a b
  | "jaro_similarity" | "jaro_sim" => strDist (fun x y => some (jaroSim x y)) a b
  | "jaccard" => strDist jaccardSim a b
  | _ => none

/-- A `CustomLevel`'s truth value is supplied by the harness as the pseudo-column `__custom__<sql>`. -/
def customVal (s : String) (l _r : Env) : B3 :=
  match l ⟨"__custom__" ++ s, []⟩ with
  | .int 1 => some true
  | .int 0 => some false
  | _ => none

def metrics : Metrics := ⟨kmFloat, cosineFloat, fnMetric, customVal⟩

def b3Json : B3 → Json
  | none => Json.null
  | some b => Json.bool b

end LevelsJson
open LevelsJson

/-- `{"op":"levels_sat","levels":[L...],"comparisons":[[L...]...],"pairs":[[envL, envR]...]}` ↦ `sat` of every
level and `gammaOf` of every comparison (a level list) on every pair, `is_null_level` flags, `wfB` per comparison. -/
def handleLevelsSat (j : Json) : Except String Json := do
  let levels ← (← getArr j "levels").toList.mapM levelOf
  let pairs ← (← getArr j "pairs").toList.mapM fun p => do
    let a ← p.getArr?
    if a.size < 2 then throw "[envL, envR] expected"
    pure ((← envOf a[0]!), (← envOf a[1]!))
  let comps ← (j.getObjValD "comparisons").getArr?.toOption.getD #[] |>.toList.mapM fun c => do
    (← c.getArr?).toList.mapM levelOf
  let gj := fun (g : Option Int) => match g with | some g => Json.num (JsonNumber.fromInt g) | none => Json.null
  let rows := pairs.map fun (l, r) =>
    Json.mkObj [("sat", Json.arr (levels.map (fun k => b3Json (sat metrics k l r))).toArray),
                ("gammas", Json.arr (comps.map (fun ls => gj (gammaOf metrics ls l r))).toArray)]
  pure <| Json.mkObj [("rows", Json.arr rows.toArray),
                      ("isNull", Json.arr (levels.map (fun k => Json.bool (isNullLevel k))).toArray),
                      ("wf", Json.arr (comps.map (fun ls => Json.bool (wfB ls))).toArray)]

/-- `{"op":"levels_metric","m":name,"pairs":[[a,b]...]}` ↦ reference metric values as [num, den]. -/
def handleLevelsMetric (j : Json) : Except String Json := do
  let m ← getStr j "m"
  let ps ← (← getArr j "pairs").toList.mapM fun p => do
    let a ← p.getArr?
    if a.size < 2 then throw "pair expected"
    pure ((← a[0]!.getStr?).toList, (← a[1]!.getStr?).toList)
  let f : List Char → List Char → Option Rat := match m with
    | "lev" => natDist lev | "levSpec" => natDist levSpec | "damerau" => natDist damerau
    | "jaro" => fun a b => some (jaroSim a b) | "jaroWinkler" => fun a b => some (jaroWinklerSim a b)
    | _ => jaccardSim
  pure <| Json.mkObj [("values", Json.arr (ps.map (fun (a, b) => match f a b with
    | some q => Json.arr #[Json.num (JsonNumber.fromInt q.num), Json.num q.den]
    | none => Json.null)).toArray)]

end SplinkVerif.Drv
