import SplinkVerif.Drv.Util
import SplinkVerif.Drv.Score
import SplinkVerif.Drv.Blocking
import SplinkVerif.Model.Entry
namespace SplinkVerif.Drv
open Lean SplinkVerif SplinkVerif.Score SplinkVerif.Blocking SplinkVerif.Entry

def parseRec (j : Json) : Except String (Rec Float) := do
  let va ← getArr j "val"
  let vals ← va.mapM (optOf fun x => x.getNat?)
  let sa ← getArr j "sup"
  -- null = field absent; {"v": bits|null} = field present
  let sups ← sa.mapM (optOf fun x => optOf floatOfBits (x.getObjValD "v"))
  pure { val := fun c => vals.getD c none, supplied := fun c => sups.getD c none }

def jsonOfEntryScored (s : Scored Float) : Json :=
  Json.mkObj [
    ("gammas", Json.arr (s.gammas.map (jsonOfOpt fun (g : Int) => Json.num (JsonNumber.fromInt g))).toArray),
    ("terms", Json.arr (s.terms.map (jsonOfOpt jsonOfFac)).toArray),
    ("weight", jsonOfOpt jsonOfFac s.weight),
    ("prob", jsonOfOpt bitsOfFloat s.prob)]

def entryBoolArr (j : Json) : Except String (Array Bool) := do
  let a ← j.getArr?
  a.mapM fun x => x.getBool?

/-- `{"op":"entry","prior","comparisons","tf":[[bits|null]],"inData":[[bool]],"tableCached":[bool],
"concatCached":bool,"recs":[{val,sup}],"guards":[[ [[0|1|2]] | null ]],"queries":[{kind,l,r}],
"fm":null|{nE,nN,rules,thr},"me":null|{lt,m,key,sd,cluster,supplied}}` -/
def handleEntry (j : Json) : Except String Json := do
  let prior ← floatOfBits (← j.getObjVal? "prior")
  let csJ ← getArr j "comparisons"
  let cs ← csJ.toList.mapM fun c => do
    let a ← c.getArr?
    a.toList.mapM parseLevel
  let tfJ ← getArr j "tf"
  let tf ← tfJ.mapM optFloatArr
  let inJ ← getArr j "inData"
  let inData ← inJ.mapM entryBoolArr
  let cached ← entryBoolArr (← j.getObjVal? "tableCached")
  let concatCached ← getBool j "concatCached"
  let L : Linker Float :=
    { prior := prior, comparisons := cs,
      tf := fun c v => (tf.getD c #[]).getD v none,
      inData := fun c v => (inData.getD c #[]).getD v false,
      tableCached := fun c => cached.getD c false,
      concatCached := concatCached }
  let recsJ ← getArr j "recs"
  let recs ← recsJ.mapM parseRec
  let gJ ← getArr j "guards"
  let gm ← gJ.mapM fun row => do
    let a ← row.getArr?
    a.mapM fun cell => match cell with
      | Json.null => pure ([] : List (List B3))
      | _ => do
        let comps ← cell.getArr?
        comps.toList.mapM fun g => do
          let a ← g.getArr?
          a.toList.mapM parseB3
  let dummy : Rec Float := { val := fun _ => none, supplied := fun _ => none }
  let W : World Float :=
    { recs := fun i => recs.getD i dummy, guards := fun l r => (gm.getD l #[]).getD r [] }
  let qJ ← getArr j "queries"
  let qs ← qJ.mapM fun q => do
    let k ← getStr q "kind"
    let l ← getNat q "l"
    let r ← getNat q "r"
    match k with
    | "predict" => pure (jsonOfEntryScored (predictPair L W l r))
    | "c2r" => pure (jsonOfEntryScored (compareTwoRecords L W l r))
    | "rt" => pure (jsonOfEntryScored (realtimeCompare L W l r))
    | "fmscore" => pure (jsonOfEntryScored (fmScore L W l r))
    | _ => throw s!"bad query kind {k}"
  let fmJ := j.getObjValD "fm"
  let fmOut ← match fmJ with
    | Json.null => pure Json.null
    | _ => do
      let nE ← getNat fmJ "nE"
      let nN ← getNat fmJ "nN"
      let rs ← getArr fmJ "rules"
      let rules ← rs.toList.mapM parseRule
      let thr ← floatOfBits (← fmJ.getObjVal? "thr")
      let out := findMatches L W nE nN (fun _ _ => 0) rules thr
      pure (Json.arr (out.map fun x => Json.mkObj [("row", jsonOfRow x.1), ("s", jsonOfEntryScored x.2)]).toArray)
  let meJ := j.getObjValD "me"
  let meOut ← match meJ with
    | Json.null => pure Json.null
    | _ => do
      let lt ← parseLinkType (← getStr meJ "lt")
      let m ← getNat meJ "m"
      let key ← natArr (← meJ.getObjVal? "key")
      let sd ← natArr (← meJ.getObjVal? "sd")
      let cl ← natArr (← meJ.getObjVal? "cluster")
      let supJ ← getArr meJ "supplied"
      let sup ← supJ.toList.mapM natPair
      let t : Table := { m := m, key := fun i => key.getD i 0, sd := fun i => sd.getD i 0, part := fun _ _ => 0 }
      let out := missingEdges L W lt t (fun i => cl.getD i 0) sup
      pure (Json.arr (out.map fun x => Json.mkObj [("row", jsonOfRow x.1), ("s", jsonOfEntryScored x.2)]).toArray)
  pure <| Json.mkObj [("queries", Json.arr qs), ("fm", fmOut), ("me", meOut)]
end SplinkVerif.Drv
