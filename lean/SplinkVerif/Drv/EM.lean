import SplinkVerif.Drv.Score
import SplinkVerif.Drv.Arith
import SplinkVerif.Model.EM
namespace SplinkVerif.Drv
open Lean SplinkVerif SplinkVerif.Score SplinkVerif.EM

def parseState (j : Json) : Except String LevelState := do
  pure { mObserved := (j.getObjValD "mObs") != Json.bool false, uObserved := (j.getObjValD "uObs") != Json.bool false,
         fixM := (j.getObjValD "fixM") == Json.bool true, fixU := (j.getObjValD "fixU") == Json.bool true }

def parseParams (j : Json) : Except String (Params Float) := do
  let prior ← floatOfBits (← j.getObjVal? "prior")
  let csJ ← getArr j "comparisons"
  let cs ← csJ.toList.mapM fun c => do
    let a ← c.getArr?
    a.toList.mapM parseLevel
  let sts ← csJ.toList.mapM fun c => do
    let a ← c.getArr?
    a.toList.mapM parseState
  pure { prior := prior, comps := cs, states := sts }

def jsonOfParams (θ : Params Float) : Json :=
  Json.mkObj [("prior", bitsOfFloat θ.prior),
    ("comparisons", Json.arr ((θ.comps.zip θ.states).map fun p =>
      Json.arr ((p.1.zip p.2).map fun q =>
        Json.mkObj [("cvv", Json.num (JsonNumber.fromInt q.1.cvv)), ("m", bitsOfFloat q.1.m), ("u", bitsOfFloat q.1.u),
          ("mObs", Json.bool q.2.mObserved), ("uObs", Json.bool q.2.uObserved)]).toArray).toArray)]

def parseRows (j : Json) : Except String (List (Row Float)) := do
  let rs ← getArr j "rows"
  rs.toList.mapM fun r => do
    let p ← parsePair r
    let c := match (r.getObjValD "count").getNat? with | .ok n => n | .error _ => 1
    pure { pair := p, count := c }

def parseSession (j : Json) : Session :=
  let s := j.getObjValD "session"
  { fixM := (s.getObjValD "fixM") == Json.bool true, fixU := (s.getObjValD "fixU") == Json.bool true,
    fixLambda := (s.getObjValD "fixLambda") == Json.bool true }

/-- `{"op":"em_step", prior, comparisons:[[level+state…]], rows:[{guards,tfl,tfr,count}], session:{…}}` →
new parameters, the E-step probabilities and the largest change. -/
def handleEMStep (j : Json) : Except String Json := do
  let θ ← parseParams j
  let rows ← parseRows j
  let sess := parseSession j
  let θ' := step sess θ rows
  pure <| Json.mkObj [("params", jsonOfParams θ'), ("maxChange", bitsOfFloat (maxChange θ θ')),
    ("probs", Json.arr (rows.map fun r => bitsOfFloat (eProb θ r)).toArray)]

/-- `{"op":"em_run", …, "conv":bits, "maxIter":n}` → the whole history. -/
def handleEMRun (j : Json) : Except String Json := do
  let θ ← parseParams j
  let rows ← parseRows j
  let sess := parseSession j
  let conv ← floatOfBits (← j.getObjVal? "conv")
  let maxIter ← getNat j "maxIter"
  let hist := run sess rows conv maxIter θ
  pure <| Json.mkObj [("history", Json.arr (hist.map jsonOfParams).toArray)]

/-- `{"op":"em_misc","prior":bits,"bfs":[bits],"levels":[[colcode…]…],"ruleCols":[colcode…],"values":[bits…]}` -/
def handleEMMisc (j : Json) : Except String Json := do
  let prior ← floatOfBits (← j.getObjVal? "prior")
  let bfs ← listArg (← j.getObjVal? "bfs")
  let lv ← getArr j "levels"
  let levels ← lv.toList.mapM fun l => do
    let a ← l.getArr?
    a.toList.mapM fun x => x.getNat?
  let rc ← getArr j "ruleCols"
  let ruleCols ← rc.toList.mapM fun x => x.getNat?
  let vals ← listArg (← j.getObjVal? "values")
  pure <| Json.mkObj [("startPrior", bitsOfFloat (startPrior prior bfs)),
    ("levelsToReverse", Json.arr ((levelsToReverse levels ruleCols).map fun (i : Nat) => Json.num i).toArray),
    ("median", match median vals with | some x => bitsOfFloat x | none => Json.null)]
end SplinkVerif.Drv
