import SplinkVerif.Drv.Util
import SplinkVerif.Model.Tables
namespace SplinkVerif.Drv
open Lean SplinkVerif SplinkVerif.Tables
open SplinkVerif.Cache (Phys Key Entry Req)

private def getPhys (j : Json) (k : String) : Except String Phys := do
  let (t, h) ← natPair (← j.getObjVal? k)
  pure ⟨t, h⟩

private def ownerCode : Owner → Nat
  | .user => 0
  | .splinkDerived => 1
  | .callerRegistered => 2

/-- `{"op":"tables_trace","user":[[templ,hash,val]…],"events":[…]}` — replay of the observed catalog/cache events through
`Model/Tables.lean`; one output per event (`null` where the event has none):
`{"k":"req","templ":n,"text":n,"use_cache":b}` → hit?;  `{"k":"register","p":[t,h],"val":n,"overwrite":b}` → refused?;
`{"k":"drop_df","p":[t,h],"created":b,"force":b}` → refused?;  `{"k":"set_named","templ":n,"p":[t,h],"val":n,"created":b}`;
`{"k":"forget_named","templ":n}`; `{"k":"delete_created"}`; `{"k":"invalidate"}`;
`{"k":"snap"}` → the catalog `[[templ,hash,val,owner]…]` (owner 0 user, 1 Splink-derived, 2 caller-registered).
Names are code pairs; the physical-name hash is `fun text _ => text` (the uid is constant), `eval text _ := text`. -/
def handleTablesTrace (j : Json) : Except String Json := do
  let hash := fun (t _u : Nat) => t
  let eval := fun (t _d : Nat) => t
  let mut U : List (Phys × Nat) := []
  for u in (← getArr j "user") do
    let a ← u.getArr?
    if a.size < 3 then throw "user entry: [templ,hash,val] expected"
    U := U ++ [(⟨← a[0]!.getNat?, ← a[1]!.getNat?⟩, ← a[2]!.getNat?)]
  let mut s : State := attach U
  let mut out : Array Json := #[]
  for e in (← getArr j "events") do
    let k ← getStr e "k"
    if k == "req" then
      let r : Req := { templ := ← getNat e "templ", text := ← getNat e "text", useCache := ← getBool e "use_cache" }
      out := out.push (Json.bool (Cache.request hash eval s.base r).hit)
      s := applyOp hash eval s (.req r)
    else if k == "register" then
      let o := register s (← getPhys e "p") (← getNat e "val") (← getBool e "overwrite")
      out := out.push (Json.bool o.refused)
      s := o.state
    else if k == "drop_df" then
      let o := dropDf s (← getPhys e "p") (← getBool e "created") (← getBool e "force")
      out := out.push (Json.bool o.refused)
      s := o.state
    else if k == "set_named" then
      let p ← getPhys e "p"
      s := applyOp hash eval s (.setNamed (← getNat e "templ") ⟨p, ← getNat e "val", ← getBool e "created"⟩)
      out := out.push Json.null
    else if k == "forget_named" then
      s := applyOp hash eval s (.forgetNamed (← getNat e "templ"))
      out := out.push Json.null
    else if k == "delete_created" then
      s := applyOp hash eval s .deleteCreated
      out := out.push Json.null
    else if k == "invalidate" then
      s := applyOp hash eval s .invalidate
      out := out.push Json.null
    else if k == "snap" then
      let cat := s.base.db.map fun (p, v) =>
        Json.arr #[Json.num p.templ, Json.num p.hash, Json.num v, Json.num (ownerCode (ownerOf p s.tags))]
      out := out.push (Json.arr cat.toArray)
    else throw s!"bad event {k}"
  pure <| Json.mkObj [("out", Json.arr out)]
end SplinkVerif.Drv
