import SplinkVerif.Drv.Util
import SplinkVerif.Model.CC
namespace SplinkVerif.Drv
open Lean SplinkVerif

/-- `{"op":"cc","n":N,"edges":[[l,r,probBits],...],"thr":bits|null,"thrw":bits|null}` -/
def handleCC (j : Json) : Except String Json := do
  let n ← getNat j "n"
  let es ← getArr j "edges"
  let thrP ← optOf floatOfBits (j.getObjValD "thr")
  let thrW ← optOf floatOfBits (j.getObjValD "thrw")
  -- a match-weight threshold w is the probability 2^w / (1 + 2^w)
  let thr := match thrP, thrW with
    | some p, _ => some p
    | none, some w => some (CC.weightToProb w)
    | none, none => none
  let edges ← es.toList.mapM fun e => do
    let a ← e.getArr?
    if a.size < 3 then throw "edge [l,r,bits] expected"
    pure ((← a[0]!.getNat?), (← a[1]!.getNat?), (← floatOfBits a[2]!))
  let kept := CC.thresholdEdges (fun (a b : Float) => a ≥ b) thr edges
  let out := CC.cluster n kept
  let tr := CC.trace n kept
  pure <| Json.mkObj [("clusters", Json.arr (out.map jsonOfNatPair).toArray),
                      ("trace", Json.arr (tr.map fun (k : Nat) => Json.num k).toArray)]
end SplinkVerif.Drv
