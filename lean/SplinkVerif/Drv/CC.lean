import SplinkVerif.Drv.Util
import SplinkVerif.Drv.Arith
import SplinkVerif.Model.CC
namespace SplinkVerif.Drv
open Lean SplinkVerif

/-- `{"op":"cc","n":N,"edges":[[l,r,probBits],...],"thr":bits|null,"thrw":bits|null}` -/
def handleCC (j : Json) : Except String Json := do
  let n ← getNat j "n"
  let es ← getArr j "edges"
  let thrP ← optOf floatOfBits (j.getObjValD "thr")
  let thrW ← optOf floatOfBits (j.getObjValD "thrw")
  -- the two optional arguments go through the *translated* `threshold_args_to_match_prob` (Generated/Arith.lean,
  -- regenerated from misc.py on every run): `none` = the real function raises
  let thr ← match Gen.threshold_args_to_match_prob thrP thrW with
    | some t => pure t
    | none => throw "threshold_args_to_match_prob raises"
  let edges ← es.toList.mapM fun e => do
    let a ← e.getArr?
    if a.size < 3 then throw "edge [l,r,bits] expected"
    pure ((← a[0]!.getNat?), (← a[1]!.getNat?), (← floatOfBits a[2]!))
  let kept := CC.thresholdEdges (fun (a b : Float) => a ≥ b) thr edges
  let out := CC.cluster n kept
  let tr := CC.trace n kept
  pure <| Json.mkObj [("clusters", Json.arr (out.map jsonOfNatPair).toArray),
                      ("trace", Json.arr (tr.map fun (k : Nat) => Json.num k).toArray)]
end SplinkVerif.Drv
