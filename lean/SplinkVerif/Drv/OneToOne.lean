import SplinkVerif.Drv.Util
import SplinkVerif.Model.OneToOne
namespace SplinkVerif.Drv
open Lean SplinkVerif SplinkVerif.OneToOne

/-- `{"n":N,"ds":[d0,…],"dupfree":[d,…],"edges":[[l,r,probBits],…],"thr":bits|null}`.
Probabilities are non-negative doubles; their IEEE bit patterns are order isomorphic, so the
bit pattern itself is the model's `Nat` probability. -/
def parseInst (j : Json) : Except String Inst := do
  let n ← getNat j "n"
  let dsA ← (← getArr j "ds").mapM fun d => d.getNat?
  let df ← (← getArr j "dupfree").toList.mapM fun d => d.getNat?
  let es ← getArr j "edges"
  let thr ← optOf (fun t => t.getNat?) (j.getObjValD "thr")
  let edges ← es.toList.mapM fun e => do
    let a ← e.getArr?
    if a.size < 3 then throw "edge [l,r,bits] expected"
    pure ((← a[0]!.getNat?), (← a[1]!.getNat?), (← a[2]!.getNat?))
  pure { n := n, ds := fun v => dsA.getD v 0, dupFree := df, edges := edges, thr := thr }

def jsonOfNats (l : List Nat) : Json := Json.arr (l.map fun (k : Nat) => Json.num k).toArray

/-- `{"op":"sbl",…}`: the model under the position-order oracles (irrelevant on tie-free inputs). -/
def handleSBL (j : Json) : Except String Json := do
  let I ← parseInst j
  let r := run I zeroOracle zeroOracle
  pure <| Json.mkObj [("rep", jsonOfNats ((List.range I.n).map (repOf r.rep))),
                      ("trace", jsonOfNats (trace I zeroOracle zeroOracle)),
                      ("done", Json.bool r.done),
                      ("tiefree", Json.bool (decide (TieFree I)))]

/-- For one window: per partition, the positions of the rows tied for rank 1. -/
def topGroups (rep : Reps) (side : IRow → Nat) (cs : List IRow) : List (List Nat) :=
  let parts := (cs.map fun x => repOf rep (side x)).eraseDups
  parts.map fun g =>
    let inP := cs.filter fun x => repOf rep (side x) == g
    let mx := inP.foldl (fun m x => max m (prob x)) 0
    (inP.filter fun x => prob x == mx).map idx

def product : List (List Nat) → List (List Nat)
  | [] => [[]]
  | g :: gs => let rest := product gs; g.flatMap fun a => rest.map (a :: ·)

/-- Oracle that gives priority to the chosen rows. -/
def oracleOf (c : List Nat) : Oracle := fun _ i => if c.contains i then 1 else 0

/-- All tables the model can return under SOME pair of oracles: breadth-first over the
states reachable by choosing, in every pass and every partition of both windows, one of the
rows tied for rank 1.  `none` (search abandoned) when a pass has more than `cap` combinations of the left window's
choices or more than 300 distinct tables have been reached. -/
partial def explore (I : Inst) (cap : Nat) (frontier seen outs : List Reps) : Option (List Reps) :=
  match frontier with
  | [] => some outs
  | rep :: rest =>
    let cs := cands I rep
    let gL := topGroups rep node cs
    let gR := topGroups rep nbr cs
    let size := (gL.map List.length).foldl (· * ·) 1
    if size > cap || seen.length > 300 then none else
    let pL := product gL
    -- For a fixed choice cL of the left window, a partition h of the right window contributes to
    -- chosenL ∩ chosenR either one of its tied rows that cL chose, or nothing (if some tied row of h
    -- is not in cL, the right window can choose that one).  Distinct accepted sets, each with one
    -- pair of choices realising it:
    let pairs := pL.foldl (fun acc cL =>
        let optsR : List (List Nat) := gR.map fun h =>
          (h.filter cL.contains) ++ ((h.filter fun i => !cL.contains i).take 1)
        (product optsR).foldl (fun acc cR =>
          let inter := cL.filter cR.contains
          if acc.any (fun (t : List Nat × List Nat × List Nat) => t.1 == inter) then acc else (inter, cL, cR) :: acc) acc) []
    let nexts := (pairs.map fun t => step I (oracleOf t.2.1) (oracleOf t.2.2) 0 rep).eraseDups
    let (outs, news) := nexts.foldl (fun (o, nw) rep' =>
        if updCount I rep rep' == 0 then ((if o.contains rep' then o else rep' :: o), nw)
        else if seen.contains rep' || nw.contains rep' then (o, nw) else (o, rep' :: nw)) (outs, [])
    explore I cap (rest ++ news) (seen ++ news) outs

/-- `{"op":"sbl_all",…,"cap":K}`: every output reachable under some oracle pair. -/
def handleSBLAll (j : Json) : Except String Json := do
  let I ← parseInst j
  let cap := (getNat j "cap").toOption.getD 20000
  match explore I cap [initialReps I] [initialReps I] [] with
  | none => pure <| Json.mkObj [("overflow", Json.bool true)]
  | some outs => pure <| Json.mkObj [("outs", Json.arr (outs.map jsonOfNats).toArray)]

end SplinkVerif.Drv
