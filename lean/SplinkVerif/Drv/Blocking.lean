import SplinkVerif.Drv.Util
import SplinkVerif.Model.Blocking
namespace SplinkVerif.Drv
open Lean SplinkVerif SplinkVerif.Blocking

def parseLinkType (s : String) : Except String LinkType :=
  match s with
  | "dedupe_only" => pure .dedupeOnly
  | "link_only" => pure .linkOnly
  | "link_and_dedupe" => pure .linkAndDedupe
  | "two_dataset_link_only" => pure .twoDatasetLinkOnly
  | _ => throw s!"bad link type {s}"

def b3OfCode (n : Nat) : B3 := if n == 1 then some true else if n == 0 then some false else none

def natArr (j : Json) : Except String (Array Nat) := do
  let a ← j.getArr?
  a.mapM fun x => x.getNat?

def parseTable (j : Json) : Except String Table := do
  let m ← getNat j "m"
  let key ← natArr (← j.getObjVal? "key")
  let sd ← natArr (← j.getObjVal? "sd")
  let saltJ ← getArr j "salt"
  let salt ← saltJ.mapM floatOfBits
  pure { m := m, key := fun i => key.getD i 0, sd := fun i => sd.getD i 0,
         part := fun i n => (Float.floor (salt.getD i 0.0 * n.toFloat)).toUInt64.toNat }

def parseRule (j : Json) : Except String Rule := do
  let kind ← getStr j "kind"
  let rows ← getArr j "eval"
  let mat ← rows.mapM natArr
  let ev : Nat → Nat → B3 := fun l r => b3OfCode ((mat.getD l #[]).getD r 0)
  match kind with
  | "plain" => pure { kind := .plain, eval := ev }
  | "salted" => pure { kind := .salted (← getNat j "n"), eval := ev }
  | "exploding" => pure { kind := .exploding, eval := ev }
  | _ => throw s!"bad rule kind {kind}"

def jsonOfRow (r : Row) : Json := Json.arr #[Json.num r.1, Json.num r.2.1, Json.num r.2.2]

/-- `{"op":"block","lt":..,"m":..,"key":[..],"sd":[..],"salt":[bits],"rules":[{"kind","n","eval":[[0|1|2]]}]}` -/
def handleBlock (j : Json) : Except String Json := do
  let lt ← parseLinkType (← getStr j "lt")
  let t ← parseTable j
  let rs ← getArr j "rules"
  let rules ← rs.toList.mapM parseRule
  let out := block lt t rules
  pure <| Json.mkObj [("rows", Json.arr (out.map jsonOfRow).toArray)]
end SplinkVerif.Drv
