import SplinkVerif.Drv.Blocking
import SplinkVerif.Drv.Arith
import SplinkVerif.Model.BlockingAnalysis
namespace SplinkVerif.Drv
open Lean SplinkVerif SplinkVerif.Blocking SplinkVerif.BlockingAnalysis

def optNatArr (j : Json) : Except String (Array (Option Nat)) := do
  let a ← j.getArr?
  a.mapM (optOf fun x => x.getNat?)

/-- `{"op":"blockanalysis","lt","m","key","sd","salt","firstSd","rule":{eval},"keyL":[n|null],"keyR":[…],"hasKeys":bool,
     "rules":[…],"counts":[per-dataset counts],"user_lt":str,"n":k}` -/
def handleBlockAnalysis (j : Json) : Except String Json := do
  let lt ← parseLinkType (← getStr j "lt")
  let t ← parseTable j
  let firstSd ← getNat j "firstSd"
  let rule ← parseRule (← j.getObjVal? "rule")
  let keyL ← optNatArr (← j.getObjVal? "keyL")
  let keyR ← optNatArr (← j.getObjVal? "keyR")
  let hasKeys ← getBool j "hasKeys"
  let rs ← getArr j "rules"
  let rules ← rs.toList.mapM parseRule
  let counts ← listArg (← j.getObjVal? "counts")
  let userLt ← getStr j "user_lt"
  let n ← getNat j "n"
  let L := analysisLeft lt t firstSd
  let R := analysisRight lt t firstSd
  let kl := fun i => keyL.getD i none
  let kr := fun i => keyR.getD i none
  let pre := if hasKeys then preFilterCount L R kl kr else preFilterCountNoKeys L R
  let post := postFilterCount lt t firstSd rule.eval
  let cum := cumulative lt t rules
  let blocks := blockCounts L R kl kr
  let top := nLargest n blocks
  let cart := Gen.calculate_cartesian counts userLt
  pure <| Json.mkObj [
    ("pre", Json.num pre), ("post", Json.num post),
    ("cumulative", Json.arr (cum.map fun c => Json.arr #[Json.num c.rowCount, Json.num c.cumulativeRows, Json.num c.start]).toArray),
    ("nlargest", Json.arr (top.map fun b => Json.arr #[Json.num b.1, Json.num b.2.1, Json.num b.2.2]).toArray),
    ("cartesian", match cart with | some x => bitsOfFloat x | none => Json.null)]
end SplinkVerif.Drv
