import SplinkVerif.Drv.Arith
import SplinkVerif.Model.Estimators
namespace SplinkVerif.Drv
open Lean SplinkVerif SplinkVerif.Estimators

def optIntArr (j : Json) : Except String (List (Option Int)) := do
  let a ← j.getArr?
  a.toList.mapM (optOf fun x => x.getInt?)

/-- `{"op":"estim","gammas":[[γ|null per row] per comparison],"levels":[[cvv…] per comparison],
     "sample":{"kind":"dedupe"|"link_only","maxPairs":bits,"total":bits,"counts":[bits]}|null,
     "prior":{"observed":bits,"cartesian":bits,"recall":bits}|null}` -/
def handleEstim (j : Json) : Except String Json := do
  let gsJ ← getArr j "gammas"
  let gs ← gsJ.toList.mapM optIntArr
  let lvJ ← getArr j "levels"
  let lv ← lvJ.toList.mapM fun l => do
    let a ← l.getArr?
    a.toList.mapM fun x => x.getInt?
  let freqs := (gs.zip lv).map fun p =>
    Json.arr (p.2.map fun v => match levelFreq p.1 v with
      | some (n, d) => Json.arr #[Json.num n, Json.num d]
      | none => Json.null).toArray
  let sample ← match j.getObjValD "sample" with
    | Json.null => pure Json.null
    | s => do
      let kind ← getStr s "kind"
      let maxPairs ← floatOfBits (← s.getObjVal? "maxPairs")
      let r ← if kind == "link_only" then do
          let counts ← listArg (← s.getObjVal? "counts")
          pure (sampleLinkOnly counts maxPairs)
        else do
          let total ← floatOfBits (← s.getObjVal? "total")
          pure (sampleDedupe maxPairs total)
      pure (match r with | some (p, n) => Json.arr #[bitsOfFloat p, bitsOfFloat n] | none => Json.null)
  let prior ← match j.getObjValD "prior" with
    | Json.null => pure Json.null
    | s => do
      let o ← floatOfBits (← s.getObjVal? "observed")
      let c ← floatOfBits (← s.getObjVal? "cartesian")
      let r ← floatOfBits (← s.getObjVal? "recall")
      pure (match priorEstimate o c r with | some x => Json.mkObj [("value", bitsOfFloat x)] | none => Json.mkObj [("rejected", Json.bool true)])
  pure <| Json.mkObj [("freqs", Json.arr freqs.toArray), ("sample", sample), ("prior", prior)]
end SplinkVerif.Drv
