import SplinkVerif.Drv.Util
import SplinkVerif.Drv.Arith
import SplinkVerif.Model.MultiThreshold
namespace SplinkVerif.Drv
open Lean SplinkVerif

/-- `{"op":"multi","n":N,"edges":[[l,r,bits]],"ts":[bits],"weights":bool}` -/
def handleMulti (j : Json) : Except String Json := do
  let n ← getNat j "n"
  let es ← getArr j "edges"
  let tsJ ← getArr j "ts"
  let isW := (j.getObjValD "weights") == Json.bool true
  let edges ← es.toList.mapM fun e => do
    let a ← e.getArr?
    if a.size < 3 then throw "edge [l,r,bits] expected"
    pure ((← a[0]!.getNat?), (← a[1]!.getNat?), (← floatOfBits a[2]!))
  let ts0 ← tsJ.toList.mapM floatOfBits
  -- through the *translated* `threshold_args_to_match_prob_list` (Generated/Arith.lean): weights -> probabilities, sorted
  let ts ← match (if isW then Gen.threshold_args_to_match_prob_list none (some ts0)
                  else Gen.threshold_args_to_match_prob_list (some ts0) none) with
    | some (some ts) => pure ts
    | _ => throw "threshold_args_to_match_prob_list raises or returns None"
  let ge := fun (a b : Float) => decide (a ≥ b)
  let res := MultiThreshold.multi ge 1.0 n edges ts
  let trs := MultiThreshold.multiTraces ge 1.0 n edges ts
  let out := res.map fun (t, cc) =>
    let st := MultiThreshold.stats cc
    Json.mkObj [("t", bitsOfFloat t), ("rows", Json.arr (cc.map jsonOfNatPair).toArray),
      ("num", Json.num st.numClusters), ("max", Json.num st.maxSize), ("total", Json.num st.totalSize)]
  pure <| Json.mkObj [("results", Json.arr out.toArray),
    ("traces", Json.arr (trs.map fun tr => Json.arr (tr.map fun (k : Nat) => Json.num k).toArray).toArray)]
end SplinkVerif.Drv
