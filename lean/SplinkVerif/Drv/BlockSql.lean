import SplinkVerif.Drv.Util
import SplinkVerif.Drv.Blocking
import SplinkVerif.Drv.CCSql
import SplinkVerif.Model.BlockSql
namespace SplinkVerif.Drv
open Lean SplinkVerif SplinkVerif.Rel

/-- JSON → `Val`: `null`, integers, strings, booleans. -/
def valOfJson (j : Json) : Except String Val :=
  match j with
  | Json.null => pure .null
  | Json.bool b => pure (.bool b)
  | Json.str s => pure (.str s)
  | _ => do pure (.int (← j.getInt?))

def cmpOfString (s : String) : Except String Cmp :=
  match s with
  | "eq" => pure .eq | "ne" => pure .ne | "lt" => pure .lt | "le" => pure .le | "gt" => pure .gt | "ge" => pure .ge
  | _ => throw s!"bad comparison {s}"

/-- JSON → `Expr`: `["col",i]`, `["lit",v]`, `["cmp",op,a,b]`, `["and",a,b]`, `["or",a,b]`, `["not",a]`. -/
partial def exprOfJson (j : Json) : Except String Expr := do
  let a ← j.getArr?
  if a.size < 2 then throw "expression [tag, ...] expected"
  let tag ← a[0]!.getStr?
  match tag with
  | "col" => pure (.col (← a[1]!.getNat?))
  | "lit" => pure (.lit (← valOfJson a[1]!))
  | "not" => pure (.not (← exprOfJson a[1]!))
  | "and" => if a.size < 3 then throw "and: two operands" else pure (.and (← exprOfJson a[1]!) (← exprOfJson a[2]!))
  | "or" => if a.size < 3 then throw "or: two operands" else pure (.or (← exprOfJson a[1]!) (← exprOfJson a[2]!))
  | "cmp" =>
    if a.size < 4 then throw "cmp: operator and two operands"
    else pure (.cmp (← cmpOfString (← a[1]!.getStr?)) (← exprOfJson a[2]!) (← exprOfJson a[3]!))
  | _ => throw s!"bad expression tag {tag}"

def rowsOfJson (j : Json) : Except String (List Row) := do
  let a ← j.getArr?
  a.toList.mapM fun r => do (← r.getArr?).toList.mapM valOfJson

/-- `{"op":"block_sql","lt":..,"w":W,"left":[[v,...]],"right":[[v,...]],"rules":[expr,...]}`: evaluates the *regenerated*
per-rule statements of `__splink__blocked_id_pairs` (Generated/BlockSql.lean) with `Rel.eval` under the control flow of
`Model/BlockSql.lean`.  For the self-joining link types `left` = `right` = `__splink__df_concat_with_tf`. -/
def handleBlockSql (j : Json) : Except String Json := do
  let lt ← parseLinkType (← getStr j "lt")
  let w ← getNat j "w"
  let left ← rowsOfJson (← j.getObjVal? "left")
  let right ← rowsOfJson (← j.getObjVal? "right")
  let rules ← (← getArr j "rules").toList.mapM exprOfJson
  let rows := BlockSql.block lt w (BlockSql.inputDb lt left right) rules
  pure <| Json.mkObj [("rows", Json.arr (rows.map fun r => Json.arr (r.map jsonOfVal).toArray).toArray)]
end SplinkVerif.Drv
