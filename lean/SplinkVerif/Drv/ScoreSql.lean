import SplinkVerif.Drv.Util
import SplinkVerif.Drv.BlockSql
import SplinkVerif.Generated.ScoreSql
namespace SplinkVerif.Drv
open Lean SplinkVerif SplinkVerif.Rel

/-- float8 +∞ in the driver: any value that is neither NULL nor a number (Lemmas/ScoreSql.lean: `IsInf`) -/
def scoreInf : Val := Val.str "Infinity"

/-- JSON → `Val` with exact numbers: `{"rat":[num,den]}`, `"Infinity"` (as a string: `scoreInf`), else as `valOfJson` -/
def valOfJsonQ (j : Json) : Except String Val :=
  match j.getObjVal? "rat" with
  | .ok r => do
    let a ← r.getArr?
    if a.size != 2 then throw "rat: [num, den]"
    let n ← a[0]!.getInt?
    let d ← a[1]!.getNat?
    pure (.rat ((n : Rat) / (d : Rat)))
  | .error _ => valOfJson j

/-- JSON → `Expr` as `exprOfJson`, plus `["isnull", a]` and `{"rat":…}` literals -/
partial def exprOfJsonQ (j : Json) : Except String Expr := do
  let a ← j.getArr?
  if a.size < 2 then throw "expression [tag, ...] expected"
  let tag ← a[0]!.getStr?
  match tag with
  | "col" => pure (.col (← a[1]!.getNat?))
  | "lit" => pure (.lit (← valOfJsonQ a[1]!))
  | "not" => pure (.not (← exprOfJsonQ a[1]!))
  | "isnull" => pure (.isNull (← exprOfJsonQ a[1]!))
  | "and" => if a.size < 3 then throw "and: two operands" else pure (.and (← exprOfJsonQ a[1]!) (← exprOfJsonQ a[2]!))
  | "or" => if a.size < 3 then throw "or: two operands" else pure (.or (← exprOfJsonQ a[1]!) (← exprOfJsonQ a[2]!))
  | "cmp" =>
    if a.size < 4 then throw "cmp: operator and two operands"
    else pure (.cmp (← cmpOfString (← a[1]!.getStr?)) (← exprOfJsonQ a[2]!) (← exprOfJsonQ a[3]!))
  | _ => throw s!"bad expression tag {tag}"

def scoreLevelOfJson (j : Json) : Except String ScoreSql.Level := do
  pure { cond := ← exprOfJsonQ (← j.getObjVal? "cond"), cvv := ← getInt j "cvv", bf := ← valOfJsonQ (← j.getObjVal? "bf") }

def scoreComparisonOfJson (j : Json) : Except String ScoreSql.Comparison := do
  pure { levels := ← (← getArr j "levels").toList.mapM scoreLevelOfJson, elseCvv := ← getInt j "elseCvv",
         elseBf := ← valOfJsonQ (← j.getObjVal? "elseBf") }

/-- `{"op":"score_sql","nid":N,"pairs":[[v,...]],"comps":[{"levels":[{"cond":expr,"cvv":i,"bf":val}],"elseCvv":i,"elseBf":val}],"prior":val}`:
runs the scoring pipeline (Model/ScoreSql.lean; `Generated/ScoreSql.lean`, regenerated from the real code, checks by `rfl` that it is the
translation of the emitted SQL) with `Rel.eval` on the given `blocked_with_cols` rows, no threshold (`log2` is uninterpreted).  Returns the
rows of `__splink__df_match_weight_parts` and of `__splink__df_predict` (the match_weight column is not meaningful). -/
def handleScoreSql (j : Json) : Except String Json := do
  let nid ← getNat j "nid"
  let pairs ← rowsOfJson (← j.getObjVal? "pairs")
  let cs ← (← getArr j "comps").toList.mapM scoreComparisonOfJson
  let prior ← valOfJsonQ (← j.getObjVal? "prior")
  let db : Db := Db.set (fun _ => []) "blocked_with_cols" pairs
  let out := runStmts db (ScoreSql.pipeline nid scoreInf prior none cs)
  let enc := fun (rows : List Row) => Json.arr (rows.map fun r => Json.arr (r.map jsonOfVal).toArray).toArray
  pure <| Json.mkObj [("parts", enc (out "__splink__df_match_weight_parts")), ("predict", enc (out "__splink__df_predict"))]
end SplinkVerif.Drv
