import SplinkVerif.Drv.CCSql
import SplinkVerif.Model.BCountSql
namespace SplinkVerif.Drv
open Lean SplinkVerif SplinkVerif.Rel

def bcValOfJson : Json → Except String Val
  | Json.null => pure Val.null
  | Json.str s => pure (Val.str s)
  | Json.bool b => pure (Val.bool b)
  | j => do pure (Val.int (← j.getInt?))

def bcRowsOfJson (j : Json) : Except String (List Row) := do
  (← j.getArr?).toList.mapM fun r => do (← r.getArr?).toList.mapM bcValOfJson

/-- The statement list of the counting pipeline for this set-up and key list: the REGENERATED lists of
`Generated/BCountSql.lean` where a run with that many keys was captured, the loop form of `Model/BCountSql.lean` (proved
equal to them at 1, 2, 3 keys) beyond. -/
def bcountStmts (two : Bool) (keys : List (Expr × Expr)) : List Stmt :=
  match two, keys with
  | false, [] => Gen.BCountSql.self0Stmts
  | true, [] => Gen.BCountSql.two0Stmts
  | false, [(a, b)] => Gen.BCountSql.self1Stmts a b
  | true, [(a, b)] => Gen.BCountSql.two1Stmts a b
  | false, [(a, b), (c, d)] => Gen.BCountSql.self2Stmts a c b d
  | true, [(a, b), (c, d)] => Gen.BCountSql.two2Stmts a c b d
  | false, [(a, b), (c, d), (e, f)] => Gen.BCountSql.self3Stmts a c e b d f
  | two, keys => BCountSql.countStmts two keys

def nlStmts (two : Bool) (keys : List (Expr × Expr)) : Option (List Stmt × Expr × Bool) :=
  match two, keys with
  | _, [] => none
  | false, [(a, b)] => some (Gen.BCountSql.nlSelf1Stmts a b, Gen.BCountSql.nlSelf1BlocksTopKey, Gen.BCountSql.nlSelf1BlocksTopDesc)
  | true, [(a, b), (c, d)] => some (Gen.BCountSql.nlTwo2Stmts a c b d, Gen.BCountSql.nlTwo2BlocksTopKey, Gen.BCountSql.nlTwo2BlocksTopDesc)
  | false, [(a, b), (c, d), (e, f)] =>
    some (Gen.BCountSql.nlSelf3Stmts a c e b d f, Gen.BCountSql.nlSelf3BlocksTopKey, Gen.BCountSql.nlSelf3BlocksTopDesc)
  | two, keys => some (BCountSql.nLargestStmts two keys, BCountSql.topKey keys.length, true)

/-- `{"op":"bcount_sql","two":bool,"L":[[v,…],…],"R":[[v,…],…],"keys":[[colL,colR],…],"n":k,"concat":[[v,…],…]|null,"sd":col|null}`:
the regenerated counting statements of blocking_analysis.py under `Rel.eval`.  With `concat` (the rows of `__splink__df_concat` of the
cumulative function) also the regenerated `_row_counts_per_input_table` statement: `sd` = the source dataset column, `null` = dedupe_only.  Self-join set-up: `L` is `__splink__df_concat` (`R` ignored);
two-table set-up: `L` / `R` are `input_0` / `input_1`.  Key expressions are column references of the given rows. -/
def handleBCountSql (j : Json) : Except String Json := do
  let two ← getBool j "two"
  let L ← bcRowsOfJson (← j.getObjVal? "L")
  let R ← bcRowsOfJson (← j.getObjVal? "R")
  let n ← getNat j "n"
  let keys ← (← getArr j "keys").toList.mapM fun p => do
    let (a, b) ← natPair p
    pure (Expr.col a, Expr.col b)
  let db0 : Db := fun _ => []
  let db : Db := if two then Db.set (Db.set db0 "input_0" L) "input_1" R else Db.set db0 "__splink__df_concat" L
  let out := runStmts db (bcountStmts two keys)
  let enc := fun (rows : List Row) => Json.arr (rows.map fun r => Json.arr (r.map jsonOfVal).toArray).toArray
  let top := match nlStmts two keys with
    | none => Json.null
    | some (stmts, key, desc) =>
      let rows := (runStmts db stmts) BCountSql.nameBlocks
      Json.mkObj [("rows", enc rows), ("first", enc (orderLimit key desc n rows))]
  let rc ← match j.getObjValD "concat" with
    | Json.null => pure Json.null
    | cj => do
      let C ← bcRowsOfJson cj
      let sd ← optOf (fun v => v.getNat?) (j.getObjValD "sd")
      let rows := match sd with
        | none => BCountSql.rowCounts true (Expr.col 0) (Db.set db0 BCountSql.nameConcat C)
        | some c => BCountSql.rowCounts false (Expr.col c) (Db.set db0 BCountSql.nameConcat C)
      pure (Json.arr ((BCountSql.countsOf rows).map fun (n : Nat) => Json.num n).toArray)
  pure <| Json.mkObj [("rowcounts", rc), ("total", Json.num (BCountSql.totalOf (out BCountSql.nameTotal))),
    ("total_rows", enc (out BCountSql.nameTotal)), ("blocks", enc (out BCountSql.nameBlocks)), ("top", top)]
end SplinkVerif.Drv
