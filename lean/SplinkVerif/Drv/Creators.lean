import SplinkVerif.Drv.Util
import SplinkVerif.Generated.CreatorWrites
namespace SplinkVerif.Drv
open Lean SplinkVerif SplinkVerif.Creators

/-- `{"op":"creator_calls","cls":module.Class,"ds":[dialect,…]}` → the model's verdict for that class on the
*generated* rows: `{"rows":n,"equal_fresh":[bool per call],"changed":[attribute paths whose final value differs from fresh],
"stateless":bool,"only_slots":bool}`. -/
def handleCreatorCalls (j : Json) : Except String Json := do
  let cls ← getStr j "cls"
  let dsj ← getArr j "ds"
  let ds ← dsj.toList.mapM (fun x => x.getStr?)
  let rows := rowsOf Gen.creatorWrites cls
  let r := simulate rows ds
  pure <| Json.mkObj [
    ("rows", Json.num rows.length),
    ("known_class", Json.bool (Gen.creatorClasses.contains cls)),
    ("equal_fresh", Json.arr (r.1.map Json.bool).toArray),
    ("changed", Json.arr (r.2.map Json.str).toArray),
    ("stateless", Json.bool (rows.all (fun w => w.kind != .selfDependent))),
    ("only_slots", Json.bool (rows.all (fun w => w.kind == .dialectSlot)))]

end SplinkVerif.Drv
