import SplinkVerif.Drv.Util
import SplinkVerif.Model.GraphMetrics
namespace SplinkVerif.Drv
open Lean SplinkVerif SplinkVerif.GraphMetrics

private def jInt (i : Int) : Json := Json.num (JsonNumber.fromInt i)
private def jFrac (f : Frac) : List Json := [jInt f.num, Json.num f.den]
private def jOptFrac : Option Frac → List Json
  | some f => jFrac f
  | none => [Json.null, Json.null]

/-- `{"op":"graphmetrics","n":N,"cid":[c0,..],"edges":[[l,r,probBits],...],"thr":bits,"order":[...]}`
→ `{"nodes":[[node,cluster,degree,num,den]],"edges":null|[[l,r,isBridge]],
    "clusters":[[cluster,n_nodes,eNum,eDen,dNum|null,dDen|null,cNum|null,cDen|null]]}`.
`order` is the row order of the nodes table used by `row_number()`; igraph's `bridges` is
instantiated with `naiveBridges`. -/
def handleGraphMetrics (j : Json) : Except String Json := do
  let n ← getNat j "n"
  let cids ← (← getArr j "cid").mapM (·.getNat?)
  let es ← getArr j "edges"
  let thr ← floatOfBits (← j.getObjVal? "thr")
  let order ← (← getArr j "order").toList.mapM (·.getNat?)
  let edges ← es.toList.mapM fun e => do
    let a ← e.getArr?
    if a.size < 3 then throw "edge [l,r,bits] expected"
    pure ((← a[0]!.getNat?), (← a[1]!.getNat?), (← floatOfBits a[2]!))
  let cid : Nat → Nat := fun i => cids.getD i 0
  let kept := truncatedEdges (fun (a b : Float) => a ≥ b) thr edges
  let nodes := nodesTable n cid kept
  let etab := edgesTable naiveBridges order kept
  let ctab := clustersTable nodes
  let jn := nodes.map fun r =>
    Json.arr ([Json.num r.node, Json.num r.cluster, Json.num r.degree] ++ jFrac r.centrality).toArray
  let je := match etab with
    | none => Json.null
    | some rows => Json.arr (rows.map fun r => Json.arr #[Json.num r.1, Json.num r.2.1, Json.bool r.2.2]).toArray
  let jc := ctab.map fun r =>
    Json.arr ([Json.num r.cluster, Json.num r.nNodes] ++ jFrac r.nEdges ++ jOptFrac r.density
      ++ jOptFrac r.centralisation).toArray
  pure <| Json.mkObj [("nodes", Json.arr jn.toArray), ("edges", je), ("clusters", Json.arr jc.toArray)]
end SplinkVerif.Drv
