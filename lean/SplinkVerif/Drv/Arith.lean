import SplinkVerif.Drv.Util
import SplinkVerif.Generated.Arith
namespace SplinkVerif.Drv
open Lean SplinkVerif

instance : ANum Float where
  ofNat := fun n => n.toFloat
  add := (· + ·)
  sub := (· - ·)
  mul := (· * ·)
  div := (· / ·)
  sqrt := Float.sqrt
  pow2 := fun x => Float.pow 2.0 x
  log2 := Float.log2
  inf := 1.0 / 0.0
  le := fun a b => decide (a ≤ b)
  lt := fun a b => decide (a < b)
  eq := fun a b => a == b

def numArg (j : Json) : Except String Float := floatOfBits j
def optNumArg (j : Json) : Except String (Option Float) := optOf floatOfBits j
def listArg (j : Json) : Except String (List Float) := do
  let a ← j.getArr?
  a.toList.mapM floatOfBits
def optListArg (j : Json) : Except String (Option (List Float)) := optOf listArg j

def jOptNum : Option Float → Json
  | some x => bitsOfFloat x
  | none => Json.null
def jList (l : List Float) : Json := Json.arr (l.map bitsOfFloat).toArray

/-- `{"op":"arith","fn":name,"args":[…]}` → `{"raised":bool,"value":…}`; floats as bits. -/
def handleArith (j : Json) : Except String Json := do
  let fn ← getStr j "fn"
  let args ← getArr j "args"
  let a (i : Nat) : Json := args.getD i Json.null
  let wrap {β} (f : β → Json) (r : Option β) : Json :=
    match r with
    | some v => Json.mkObj [("raised", Json.bool false), ("value", f v)]
    | none => Json.mkObj [("raised", Json.bool true)]
  match fn with
  | "prob_to_bayes_factor" => pure <| wrap bitsOfFloat (Gen.prob_to_bayes_factor (← numArg (a 0)))
  | "bayes_factor_to_prob" => pure <| wrap bitsOfFloat (Gen.bayes_factor_to_prob (← numArg (a 0)))
  | "match_weight_to_bayes_factor" => pure <| wrap bitsOfFloat (Gen.match_weight_to_bayes_factor (← numArg (a 0)))
  | "prob_to_match_weight" => pure <| wrap bitsOfFloat (Gen.prob_to_match_weight (← numArg (a 0)))
  | "calculate_cartesian" => pure <| wrap bitsOfFloat (Gen.calculate_cartesian (← listArg (a 0)) (← (a 1).getStr?))
  | "threshold_args_to_match_weight" =>
    pure <| wrap jOptNum (Gen.threshold_args_to_match_weight (← optNumArg (a 0)) (← optNumArg (a 1)))
  | "threshold_args_to_match_prob" =>
    pure <| wrap jOptNum (Gen.threshold_args_to_match_prob (← optNumArg (a 0)) (← optNumArg (a 1)))
  | "threshold_args_to_match_prob_list" =>
    pure <| wrap (fun (r : Option (List Float)) => match r with | some l => jList l | none => Json.null)
      (Gen.threshold_args_to_match_prob_list (← optListArg (a 0)) (← optListArg (a 1)))
  | "_rows_needed_for_n_pairs" => pure <| wrap bitsOfFloat (Gen._rows_needed_for_n_pairs (← numArg (a 0)))
  | "_proportion_sample_size_link_only" =>
    pure <| wrap (fun (p : Float × Float) => Json.arr #[bitsOfFloat p.1, bitsOfFloat p.2])
      (Gen._proportion_sample_size_link_only (← listArg (a 0)) (← numArg (a 1)))
  | _ => throw s!"unknown arith fn {fn}"
end SplinkVerif.Drv
