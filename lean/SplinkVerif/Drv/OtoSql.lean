import SplinkVerif.Drv.Util
import SplinkVerif.Drv.CCSql
import SplinkVerif.Model.OtoSql
namespace SplinkVerif.Drv
open Lean SplinkVerif SplinkVerif.Rel

/-- `{"op":"oto_sql","n":N,"ds":["a",…] (dataset name of node 0..N-1),"dupfree":["a",…],"edges":[[l,r,key],…],"thr":key|null}`:
evaluates the *regenerated* SQL statements of `one_to_one_clustering` (Generated/OtoSql.lean) with `Rel.eval` under the
control flow of `Model/OtoSql.lean`; node ids are ranks, probabilities / threshold integer order keys.  Returns the final
`(node_id, cluster_id)` rows and the per-pass `needs_updating` counts. -/
def handleOtoSql (j : Json) : Except String Json := do
  let n ← getNat j "n"
  let dsA ← (← getArr j "ds").mapM fun d => d.getStr?
  let df ← (← getArr j "dupfree").toList.mapM fun d => d.getStr?
  let es ← getArr j "edges"
  let thr ← optOf (fun v => v.getNat?) (j.getObjValD "thr")
  let edges ← es.toList.mapM fun e => do
    let a ← e.getArr?
    if a.size < 3 then throw "edge [l,r,key] expected"
    pure ((← a[0]!.getNat?), (← a[1]!.getNat?), (← a[2]!.getNat?))
  let fuel := (List.range n).sum  -- = C12Sql.sqlFuel: the fuel of the refinement theorems
  let nodes := OtoSql.nodeRows n fun v => Val.str (dsA.getD v "")
  let sds := df.map Val.str
  let thrV := thr.map fun (t : Nat) => Val.int (t : Int)
  let rows := OtoSql.cluster nodes (OtoSql.edgeRows edges) sds thrV fuel
  let tr := OtoSql.trace nodes (OtoSql.edgeRows edges) sds thrV fuel
  pure <| Json.mkObj [("rows", Json.arr (rows.map fun r => Json.arr (r.map jsonOfVal).toArray).toArray),
                      ("trace", Json.arr (tr.map fun (k : Nat) => Json.num k).toArray)]
end SplinkVerif.Drv
