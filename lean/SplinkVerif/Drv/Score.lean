import SplinkVerif.Drv.Util
import SplinkVerif.Drv.Arith
import SplinkVerif.Model.Score
namespace SplinkVerif.Drv
open Lean SplinkVerif SplinkVerif.Score

instance : Num Float where
  zero := 0.0
  one := 1.0
  ofNat := fun n => n.toFloat
  add := (· + ·)
  sub := (· - ·)
  mul := (· * ·)
  div := (· / ·)
  pow := Float.pow
  log2 := Float.log2
  ge := fun a b => decide (a ≥ b)
  gt := fun a b => decide (a > b)
  isZero := fun a => a == 0.0

def jsonOfFac : Fac Float → Json
  | .fin x => bitsOfFloat x
  | .inf => Json.str "inf"

def jsonOfOpt {β} (f : β → Json) : Option β → Json
  | some x => f x
  | none => Json.null

def parseTF (j : Json) : Except String (TF Float) := do
  pure { col := ← getNat j "col", weight := ← floatOfBits (← j.getObjVal? "weight"),
         minU := ← floatOfBits (← j.getObjVal? "minU"), uExact := ← floatOfBits (← j.getObjVal? "uExact") }

def parseLevel (j : Json) : Except String (Level Float) := do
  pure { isNull := ← getBool j "isNull", isElse := ← getBool j "isElse", cvv := ← getInt j "cvv",
         m := ← floatOfBits (← j.getObjVal? "m"), u := ← floatOfBits (← j.getObjVal? "u"),
         tf := ← optOf parseTF (j.getObjValD "tf") }

def parseB3 (j : Json) : Except String B3 := do
  let n ← j.getNat?
  pure (if n == 1 then some true else if n == 0 then some false else none)

def optFloatArr (j : Json) : Except String (Array (Option Float)) := do
  let a ← j.getArr?
  a.mapM (optOf floatOfBits)

def parsePair (j : Json) : Except String (Pair Float) := do
  let gs ← getArr j "guards"
  let guards ← gs.toList.mapM fun g => do
    let a ← g.getArr?
    a.toList.mapM parseB3
  let tfl ← optFloatArr (← j.getObjVal? "tfl")
  let tfr ← optFloatArr (← j.getObjVal? "tfr")
  pure { guards := guards, tfl := fun i => (tfl.getD i none), tfr := fun i => (tfr.getD i none) }

def parseThreshold (j : Json) : Except String (Threshold Float) := do
  match j with
  | Json.null => pure .none
  | _ =>
    let k ← getStr j "kind"
    let v ← floatOfBits (← j.getObjVal? "value")
    match k with
    | "weight" => pure (.weight v)
    | "prob" => pure (.prob v)
    | _ => throw "bad threshold kind"

/-- `{"op":"score","prior":bits,"comparisons":[[level…]…],"pairs":[{guards,tfl,tfr}…],"thr":null|{kind,value}}` -/
def handleScore (j : Json) : Except String Json := do
  let prior ← floatOfBits (← j.getObjVal? "prior")
  let csJ ← getArr j "comparisons"
  let cs ← csJ.toList.mapM fun c => do
    let a ← c.getArr?
    a.toList.mapM parseLevel
  let psJ ← getArr j "pairs"
  let ps ← psJ.toList.mapM parsePair
  let thr0 ← parseThreshold (j.getObjValD "thr")
  -- the threshold arguments go through the *translated* `threshold_args_to_match_weight` (Generated/Arith.lean, regenerated
  -- from misc.py on every run); its answer (a weight, or no threshold) is what the model's `keep` is given
  let gen := match thr0 with
    | .none => Gen.threshold_args_to_match_weight (none : Option Float) none
    | .weight w => Gen.threshold_args_to_match_weight none (some w)
    | .prob p => Gen.threshold_args_to_match_weight (some p) none
  let thr : Threshold Float ← match gen with
    | some (some t) => pure (.weight t)
    | some none => pure .none
    | none => throw "threshold_args_to_match_weight raises"
  let out := ps.map fun p =>
    let s := score prior cs p
    Json.mkObj [
      ("gammas", Json.arr (s.gammas.map (jsonOfOpt fun (g : Int) => Json.num (JsonNumber.fromInt g))).toArray),
      ("terms", Json.arr (s.terms.map (jsonOfOpt jsonOfFac)).toArray),
      ("weight", jsonOfOpt jsonOfFac s.weight),
      ("prob", jsonOfOpt bitsOfFloat s.prob),
      ("keep", Json.bool (keep thr s))]
  pure <| Json.mkObj [("rows", Json.arr out.toArray)]
end SplinkVerif.Drv
