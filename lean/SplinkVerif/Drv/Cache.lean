import SplinkVerif.Drv.Util
import SplinkVerif.Model.Cache
namespace SplinkVerif.Drv
open Lean SplinkVerif SplinkVerif.Cache

/-- injective pairing used as the physical-name hash in replays -/
def pairHash (t u : Nat) : Nat := (t + u) * (t + u + 1) / 2 + u

/-- `{"op":"cache_trace","events":[{"k":"req","templ":n,"text":n,"use_cache":b} | {"k":"set_named","templ":n,"ptempl":n,"ptext":n,"puid":n}
     | {"k":"drop","templ":n,"text":n,"uid":n} | {"k":"forget_named","templ":n} | {"k":"invalidate"}
     | {"k":"resalt"} | {"k":"reregister"} ]}` → hit/miss of every request.
Texts, templated names are integer codes; `eval text data := text`.  The model's uid is a counter: it is 0 until the
first `resalt` and `n` after the n-th one, so the caller must code the n-th salt it observes as `n` (and give the tables
that no request produced uid codes that no counter value reaches). -/
def handleCacheTrace (j : Json) : Except String Json := do
  let evs ← getArr j "events"
  let eval := fun (t _d : Nat) => t
  let mut s : State := init
  let mut out : Array Json := #[]
  for e in evs do
    let k ← getStr e "k"
    if k == "req" then
      let r : Req := { templ := ← getNat e "templ", text := ← getNat e "text", useCache := ← getBool e "use_cache" }
      let res := request pairHash eval s r
      out := out.push (Json.bool res.hit)
      s := res.state
    else if k == "set_named" then
      let ptext ← getNat e "ptext"
      let templ ← getNat e "templ"
      let p : Phys := ⟨← getNat e "ptempl", pairHash ptext (← getNat e "puid")⟩
      let db' := if (dbGet p s.db).isSome then s.db else dbSet p ptext s.db
      s := { s with cache := cacheSet (.named templ) ⟨p, ptext, true⟩ s.cache, db := db' }
    else if k == "drop" then
      s := dropTable s ⟨← getNat e "templ", pairHash (← getNat e "text") (← getNat e "uid")⟩
    else if k == "forget_named" then
      s := forgetNamed s (← getNat e "templ")
    else if k == "invalidate" then
      s := invalidate s
    else if k == "resalt" then
      s := resalt s
    else if k == "reregister" then
      s := reregister s
    else throw s!"bad event {k}"
  pure <| Json.mkObj [("hits", Json.arr out)]
end SplinkVerif.Drv
