import SplinkVerif.Drv.Util
import SplinkVerif.Model.Descriptive
import SplinkVerif.Model.DescSql
namespace SplinkVerif.Drv
open Lean SplinkVerif SplinkVerif.Descriptive

private def valList (j : Json) : Except String (List Val) := do
  let a ← j.getArr?
  a.toList.mapM (optOf fun x => x.getNat?)

private def intList (j : Json) : Except String (List Int) := do
  let a ← j.getArr?
  a.toList.mapM fun x => x.getInt?

private def jInt (i : Int) : Json := Json.num (JsonNumber.fromInt i)
private def jNat (n : Nat) : Json := Json.num (JsonNumber.fromNat n)

/-- `select min(match_weight), max(match_weight)` -/
private def minMax : List Float → Option (Float × Float)
  | [] => none
  | w :: ws => some (ws.foldl (fun m x => if x < m then x else m) w, ws.foldl (fun m x => if x > m then x else m) w)

/-- The exact number an IEEE-754 double denotes (finite values; `-0.0` ↦ 0). -/
private def ratOfFloat (x : Float) : Rat :=
  let b : Nat := x.toBits.toNat
  let neg := b / 2 ^ 63 == 1
  let e : Nat := (b / 2 ^ 52) % 2048
  let m : Nat := b % 2 ^ 52
  let mant : Nat := if e == 0 then m else m + 2 ^ 52
  let ex : Int := if e == 0 then -1074 else (e : Int) - 1075
  let q : Rat := if ex ≥ 0 then ((mant * 2 ^ ex.toNat : Nat) : Rat) else (mant : Rat) / ((2 ^ (-ex).toNat : Nat) : Rat)
  if neg then -q else q

/-- The width literal `_bins` splices into the SQL: `1`, `2`, `5` are Python ints (integer literals), the others decimal literals
(all multiples of 0.01; the model's numbers are exact). -/
private def bwLiteral (bw : Float) : Rel.Val :=
  if bw == bw.floor then .int bw.toInt64.toInt else .rat (mkRat (bw * 100.0).round.toInt64.toInt 100)

/-- `{"op":"descriptive","sd":[n],"cols":[[n|null]],"tfcols":[i],"gammas":[[int]],"weights":[bits],"nbins":n,
     "self":[[wbits,pbits]]}` → TF tables and joined TF columns, completeness rows, comparison-vector
     distribution, histogram (chosen width, bins keyed by IEEE bits), unlinkables rows (integers: hundredths / 1e-5). -/
def handleDescriptive (j : Json) : Except String Json := do
  let sd ← (← getArr j "sd").toList.mapM fun x => x.getNat?
  let cols ← (← getArr j "cols").toList.mapM valList
  let tfcols ← (← getArr j "tfcols").toList.mapM fun x => x.getNat?
  let gammas ← (← getArr j "gammas").toList.mapM intList
  let weights ← (← getArr j "weights").toList.mapM floatOfBits
  let nbins ← getNat j "nbins"
  let self ← (← getArr j "self").toList.mapM fun p => do
    let a ← p.getArr?
    if a.size < 2 then throw "pair expected"
    pure (← floatOfBits a[0]!, ← floatOfBits a[1]!)
  let colAt (i : Nat) : List Val := cols.getD i []
  let tf := tfcols.map fun i => tfTable (colAt i)
  let tfjoin := tfcols.map fun i => leftJoinTf (colAt i) (tfTable (colAt i))
  let compl := completeness sd cols
  let dist := cvd gammas
  let hist : Json := match minMax weights with
    | none => Json.null
    | some (mn, mx) =>
      let bw := chooseWidthFloat mn mx nbins.toFloat
      let bins := histogram (fun w => floatKey (binLowFloat bw w)) weights
      Json.mkObj [("bw", bitsOfFloat bw),
        ("bins", Json.arr (bins.map fun b => Json.arr #[jNat b.1, jNat b.2]).toArray)]
  let rows := self.map fun p => (roundUnitsFloat 100.0 p.1, roundUnitsFloat 100000.0 p.2)
  let unl := unlinkables 100000 rows
  -- the regenerated SQL of the TF table and of the completeness sub-select (Generated/DescSql.lean) under Rel.eval, on the same input
  let jv : Rel.Val → Json := fun v => match v with
    | .null => Json.null
    | .int i => jInt i
    | .bool b => Json.bool b
    | .str s => Json.str s
    | .rat q => Json.arr #[jInt q.num, jNat q.den]
  let enc := fun (rows : List Rel.Row) => Json.arr (rows.map fun r => Json.arr (r.map jv).toArray).toArray
  let tfSql := tfcols.map fun i => enc (DescSql.tfTable (colAt i))
  let complSql := cols.map fun c => enc (DescSql.completenessCol sd c)
  -- the regenerated comparison-vector distribution, histogram and unlinkables statements under Rel.eval: the gamma columns by position;
  -- the bin of a pair (`bw * floor(w / bw)` at Float, opaque in the model) and the rounded self-link scores as input columns
  let ngam := match j.getObjValAs? Nat "ngam" with
    | .ok n => n
    | .error _ => (gammas.head?.map List.length).getD 1
  let cvdSql := enc (DescSql.cvdOf ngam gammas)
  let histSql : Json := match minMax weights with
    | none => Json.null
    | some (mn, mx) =>
      let bw := chooseWidthFloat mn mx nbins.toFloat
      let db : Rel.Db := Rel.Db.set (fun _ => []) "pred_in" (weights.map fun w => [Rel.Val.rat (ratOfFloat (binLowFloat bw w))])
      enc (DescSql.histogram (Rel.Expr.col 0) (bwLiteral bw) db)
  let unlSql := enc (DescSql.unlinkables (Rel.Expr.col 0) (Rel.Expr.col 1)
    (Rel.Db.set (fun _ => []) "self_in" (rows.map fun r => [Rel.Val.int r.1, Rel.Val.rat (mkRat r.2 100000)])))
  pure <| Json.mkObj [
    ("tf_sql", Json.arr tfSql.toArray), ("compl_sql", Json.arr complSql.toArray),
    ("cvd_sql", cvdSql), ("hist_sql", histSql), ("unl_sql", unlSql),
    ("tf", Json.arr (tf.map fun t => Json.arr (t.map fun r => Json.arr #[jNat r.value, jNat r.num, jNat r.den]).toArray).toArray),
    ("tfjoin", Json.arr (tfjoin.map fun t => Json.arr (t.map fun r =>
        match r.2 with
        | none => Json.null
        | some (n, d) => Json.arr #[jNat n, jNat d]).toArray).toArray),
    ("compl", Json.arr (compl.map fun t => Json.arr (t.map fun r =>
        Json.arr #[jNat r.sd, jNat r.nullRows, jNat r.totalRows, jNat r.nonNullRows]).toArray).toArray),
    ("cvd", Json.arr (dist.map fun r =>
        Json.arr #[Json.arr (r.gammas.map jInt).toArray, jInt r.sumGam, jNat r.count, jNat r.total]).toArray),
    ("hist", hist),
    ("unl", Json.arr (unl.map fun r =>
        Json.arr #[jInt r.weight, jInt r.prob, jNat r.count, jNat r.cumCount, jNat r.total]).toArray)]
end SplinkVerif.Drv
