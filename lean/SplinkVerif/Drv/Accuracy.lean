import SplinkVerif.Drv.Util
import SplinkVerif.Drv.Arith
import SplinkVerif.Model.Accuracy
import SplinkVerif.Model.AccSql
namespace SplinkVerif.Drv
open Lean SplinkVerif SplinkVerif.Accuracy

/-- Strictly monotone injection of the (non-NaN) doubles into `Int`: `ordKey a ≤ ordKey b ↔ a ≤ b`;
`-0.0` and `0.0` (equal in SQL) share key 0. -/
def ordKey (x : Float) : Int :=
  let b := x.toBits.toNat
  if b < 2 ^ 63 then (b : Int) else - ((b - 2 ^ 63 : Nat) : Int)

/-- Inverse of `ordKey`. -/
def unKey (k : Int) : Float :=
  if k ≥ 0 then Float.ofBits k.toNat.toUInt64 else Float.ofBits (2 ^ 63 + (-k).toNat).toUInt64

def keyOfBits (j : Json) : Except String Int := do pure (ordKey (← floatOfBits j))

/-- Scored label rows: `"rows": [[scoreBits, weightBits, probBits, found]]` (labels table), or
`"colrows": [[labelL|null, labelR|null, matchKey, weightBits, probBits]]` with `"newkey"` (label column:
`clerical_match_score` and `found_by_blocking_rules` are computed by the model). -/
def parseScored (j : Json) : Except String (List Scored) := do
  match j.getObjVal? "colrows" with
  | .ok cr =>
    let a ← cr.getArr?
    let newKey ← getNat j "newkey"
    a.toList.mapM fun r => do
      let c ← r.getArr?
      if c.size < 5 then throw "colrow [labL,labR,mk,w,p] expected"
      let ll ← optOf (fun x => x.getInt?) c[0]!
      let lr ← optOf (fun x => x.getInt?) c[1]!
      let mk ← c[2]!.getNat?
      pure { score := clericalFromLabelColumn (ordKey 1.0) (ordKey 0.0) ll lr
             weight := ← keyOfBits c[3]!, prob := ← keyOfBits c[4]!
             found := foundFromMatchKey mk newKey }
  | .error _ =>
    let a ← getArr j "rows"
    a.toList.mapM fun r => do
      let c ← r.getArr?
      if c.size < 4 then throw "row [score,w,p,found] expected"
      pure { score := ← keyOfBits c[0]!, weight := ← keyOfBits c[1]!, prob := ← keyOfBits c[2]!
             found := ← c[3]!.getBool? }

/-- `truth_thres_expr` in IEEE doubles: `cast(r as float) * round(match_weight / r)`;
`cast(.. as float)` is a 32-bit float on DuckDB (`f32`), a double on SQLite. -/
def bucketOf (round : Option Float) (f32 : Bool) (k : Int) : Int :=
  match round with
  | none => k
  | some r =>
    let rc := if f32 then r.toFloat32.toFloat else r
    ordKey (rc * Float.round (unKey k / r))

/-- `{"op":"acc_truth", rows|colrows, "thr":bits, "round":bits|null, "f32":bool, "opt":bool, "intdiv":bool,
     "counts":[bits]|null, "lt":str}` → rows `[ttBits,total,p,n,tp,tn,fp,fn,[17 rate bits]]`. -/
def handleAccTruth (j : Json) : Except String Json := do
  let xs ← parseScored j
  let thr ← keyOfBits (← j.getObjVal? "thr")
  let round ← optOf floatOfBits (j.getObjValD "round")
  let f32 ← getBool j "f32"
  let opt ← getBool j "opt"
  let intDiv ← getBool j "intdiv"
  let counts ← optOf listArg (j.getObjValD "counts")
  let total ← match counts with
    | none => pure none
    | some cs =>
      match Gen.calculate_cartesian cs (← getStr j "lt") with
      | some (x : Float) => pure (some x.toInt64.toInt)
      | none => throw "calculate_cartesian raised"
  let cfg : Cfg := { thresholdActual := thr, bucket := bucketOf round f32, scoreNotFoundAsZero := opt
                     sentinel := ordKey (-999.0), cutoff := ordKey (-998.0), totalLabels := total }
  let rows := truthSpace cfg xs
  let out := rows.map fun r =>
    let tt := unKey r.truthThreshold
    let q := rates { intDivision := intDiv, floatIs32 := f32 } counts.isNone tt r
    Json.arr #[bitsOfFloat tt, Json.num r.total, Json.num r.p, Json.num r.n, Json.num r.tp, Json.num r.tn,
      Json.num r.fp, Json.num r.fn,
      Json.arr (([q.matchProbability, q.pRate, q.nRate, q.tpRate, q.tnRate, q.fpRate, q.fnRate, q.precision, q.recall,
        q.specificity, q.npv, q.accuracy, q.f1, q.f2, q.f05, q.p4, q.phi].map bitsOfFloat).toArray)]
  pure <| Json.mkObj [("rows", Json.arr out.toArray)]

/-- `{"op":"acc_sql", rows, "thr":bits, "round":bits|null, "f32":bool}` (labels from a table: the option
`positives_not_captured_by_blocking_rules_scored_as_zero` is always on): the regenerated truth-space SQL
(Generated/AccSql.lean) under `Rel.eval` → rows `[ttBits,total,p,n,tp,tn,fp,fn]` before the final cutoff. -/
def handleAccSql (j : Json) : Except String Json := do
  let xs ← parseScored j
  let thr ← keyOfBits (← j.getObjVal? "thr")
  let round ← optOf floatOfBits (j.getObjValD "round")
  let f32 ← getBool j "f32"
  let lwp : List Rel.Row := xs.map fun x => [Rel.Val.int (bucketOf round f32 x.weight), Rel.Val.int x.score, Rel.Val.bool x.found]
  let rows := AccSql.truthStats lwp (Rel.Val.int thr) (Rel.Val.int (ordKey (-999.0)))
  let num : Rel.Val → Except String Json := fun v => match v with
    | .int i => pure (Json.num (JsonNumber.fromInt i))
    | .null => pure Json.null
    | _ => throw "integer expected"
  let out ← rows.mapM fun r => do
    let tt ← match r.getD 0 .null with
      | .int k => pure (bitsOfFloat (unKey k))
      | _ => throw "truth_threshold key expected"
    -- SQL column order: truth_threshold, total, P, N, FP, TP, FN, TN  →  protocol order tt,total,p,n,tp,tn,fp,fn
    let c ← (List.range 8).mapM fun i => num (r.getD i .null)
    pure (Json.arr #[tt, c[1]!, c[2]!, c[3]!, c[5]!, c[7]!, c[4]!, c[6]!])
  pure <| Json.mkObj [("rows", Json.arr out.toArray)]

def jsonOfScored (x : Scored) : List Json :=
  [bitsOfFloat (unKey x.score), bitsOfFloat (unKey x.weight), bitsOfFloat (unKey x.prob), Json.bool x.found]

/-- `{"op":"acc_errors", rows|colrows, "thr":bits, "fp":bool, "fn":bool, "mode":"table"|"column"}`
→ kept rows `[scoreBits, weightBits, probBits, found, status|null]`. -/
def handleAccErrors (j : Json) : Except String Json := do
  let xs ← parseScored j
  let thr ← keyOfBits (← j.getObjVal? "thr")
  let fp ← getBool j "fp"
  let fn ← getBool j "fn"
  let mode ← getStr j "mode"
  let out := if mode == "table" then
      (predictionErrorsTable thr fp fn xs).map fun (x, s) =>
        Json.arr (jsonOfScored x ++ [match s with | some .fp => Json.str "FP" | some .fn => Json.str "FN" | none => Json.null]).toArray
    else
      (predictionErrorsColumn thr fp fn xs).map fun x => Json.arr (jsonOfScored x ++ [Json.null]).toArray
  pure <| Json.mkObj [("rows", Json.arr out.toArray)]

def b3Of (j : Json) : Except String B3 := optOf (fun x => x.getBool?) j

/-- `{"op":"acc_prepare","labels":[[idL,idR,scoreBits,[evals as given],[evals swapped]]],"present":[count per id rank]}`
→ prepared rows `[idL,idR,scoreBits,found]` (`lower_id_to_left_hand_side`, the two inner joins, `found_by_blocking_rules`). -/
def handleAccPrepare (j : Json) : Except String Json := do
  let ls ← getArr j "labels"
  let pres ← getArr j "present"
  let presN ← pres.mapM fun x => x.getNat?
  let present := fun i => presN.getD i 0
  let parsed ← ls.toList.mapM fun l => do
    let c ← l.getArr?
    if c.size < 5 then throw "label [idL,idR,score,evals,evalsSwapped] expected"
    let row : LabelRow := { idL := ← c[0]!.getNat?, idR := ← c[1]!.getNat?, score := ← keyOfBits c[2]! }
    let e1 ← (← c[3]!.getArr?).toList.mapM b3Of
    let e2 ← (← c[4]!.getArr?).toList.mapM b3Of
    pure (row, e1, e2)
  let out := parsed.flatMap fun (row, e1, e2) =>
    let rows := blockFromLabels present [row]
    -- the rules are evaluated on the pair as oriented by `lowerIdToLeftHandSide`
    let evals := if (lowerIdToLeftHandSide row).idL = row.idL then e1 else e2
    rows.map fun r => Json.arr #[Json.num r.idL, Json.num r.idR, bitsOfFloat (unKey r.score),
      Json.bool (selectFoundByBlockingRules evals)]
  pure <| Json.mkObj [("rows", Json.arr out.toArray)]

end SplinkVerif.Drv
