import SplinkVerif.Model.Base
/-!
# Model of Splink's table cache (`database_api.py`, `cache_dict_with_logging.py`,
`linker_components/table_management.py`) and of the realtime SQL cache (`realtime.py:SQLCache`)

A *request* is a call of `sql_to_splink_dataframe_checking_cache(sql, templated_name, use_cache)`.
SQL texts, templated names and uids are codes (`Nat`); the physical table name is
`templ ++ "_" ++ sha256(sql ++ uid)[:9]`, modelled as the pair `(templ, hash text uid)`.
The contents a query produces are an uninterpreted deterministic function `eval text data` of the
SQL text and the current input data (`data` is a version number of everything the SQL reads).

* `request`      — `sql_to_splink_dataframe_checking_cache` + `_get_table_from_cache_or_db`
                   (named key first, then hashed key, then the database catalog, else execute:
                   `DROP TABLE IF EXISTS`, `CREATE TABLE … AS`, `cache[physical] = df`)
* `registerNamed`— `register_table_input_nodes_concat_with_tf` / `register_table_predict` /
                   `register_term_frequency_lookup` / `compute_df_concat_with_tf` storing under the templated name
* `dropTable`    — `drop_table_from_database_and_remove_from_cache`
* `invalidate`   — `invalidate_cache` (drop every table Splink created, empty dict; the hash uid does not change)
* `deleteCreated`— `delete_tables_created_by_splink_from_db`
* `resalt`       — `database_api.py:_forget_results_computed_from`, last line: `self._cache_uid = ascii_uid(8)`
                   (the salt of the hashed physical names is re-drawn; modelled as `uid + 1`: a fresh value)
* `reregister`   — `register_multiple_tables(..., overwrite=True)` replacing an existing table (behind
                   `register_table`, `register_table_predict`, `register_labels_table`, a `Linker`'s input
                   registration): the data change THROUGH Splink, `_forget_results_computed_from` deletes the
                   stale entries stored under a templated name and re-draws the salt; no table is dropped and
                   the entries stored under a physical name stay
-/
namespace SplinkVerif.Cache

/-- physical table name -/
structure Phys where
  templ : Nat
  hash : Nat
  deriving DecidableEq, Repr

inductive Key
  | named (templ : Nat)
  | phys (p : Phys)
  deriving DecidableEq, Repr

structure Entry where
  phys : Phys
  val : Nat
  createdBySplink : Bool
  deriving DecidableEq, Repr

structure State where
  uid : Nat
  cache : List (Key × Entry)
  db : List (Phys × Nat)
  data : Nat
  deriving Repr

structure Req where
  templ : Nat
  text : Nat
  useCache : Bool
  deriving DecidableEq, Repr

def cacheGet (k : Key) (c : List (Key × Entry)) : Option Entry := (c.find? fun p => p.1 == k).map (·.2)
def cacheSet (k : Key) (e : Entry) (c : List (Key × Entry)) : List (Key × Entry) :=
  (k, e) :: c.filter fun p => p.1 != k
def dbGet (p : Phys) (db : List (Phys × Nat)) : Option Nat := (db.find? fun q => q.1 == p).map (·.2)
def dbSet (p : Phys) (v : Nat) (db : List (Phys × Nat)) : List (Phys × Nat) :=
  (p, v) :: db.filter fun q => q.1 != p
def dbDel (p : Phys) (db : List (Phys × Nat)) : List (Phys × Nat) := db.filter fun q => q.1 != p

structure Result where
  state : State
  val : Nat
  hit : Bool

section
variable (hash : Nat → Nat → Nat) (eval : Nat → Nat → Nat)

/-- run the SQL: `DROP TABLE IF EXISTS p; CREATE TABLE p AS …; cache[p] = df` -/
def execute (s : State) (r : Req) : Result :=
  let p : Phys := ⟨r.templ, hash r.text s.uid⟩
  let v := eval r.text s.data
  { state := { s with db := dbSet p v s.db, cache := cacheSet (.phys p) ⟨p, v, true⟩ s.cache }, val := v, hit := false }

/-- `sql_to_splink_dataframe_checking_cache` -/
def request (s : State) (r : Req) : Result :=
  let p : Phys := ⟨r.templ, hash r.text s.uid⟩
  if r.useCache then
    match cacheGet (.named r.templ) s.cache with
    | some e => { state := s, val := e.val, hit := true }
    | none =>
      match cacheGet (.phys p) s.cache with
      | some e => { state := s, val := e.val, hit := true }
      | none =>
        match dbGet p s.db with
        | some v => { state := s, val := v, hit := true }
        | none => execute hash eval s r
  else execute hash eval s r
end

/-- store a table under its templated name (value `v`, physical name `templ_uid`-like code `h`) -/
def registerNamed (s : State) (templ h v : Nat) : State :=
  let p : Phys := ⟨templ, h⟩
  { s with db := dbSet p v s.db, cache := cacheSet (.named templ) ⟨p, v, false⟩ s.cache }

/-- `drop_table_from_database_and_remove_from_cache` -/
def dropTable (s : State) (p : Phys) : State :=
  { s with db := dbDel p s.db, cache := s.cache.filter fun q => q.2.phys != p }

/-- drop the entry stored under a templated name from the dict only
(`register_term_frequency_lookup` forgets `__splink__df_concat_with_tf`) -/
def forgetNamed (s : State) (templ : Nat) : State :=
  { s with cache := s.cache.filter fun q => q.1 != .named templ }

/-- `delete_tables_created_by_splink_from_db`: drop every entry stored under its own physical name
that Splink created. -/
def deleteCreated (s : State) : State :=
  let victims := (s.cache.filter fun q => q.2.createdBySplink && q.1 == .phys q.2.phys).map (·.2.phys)
  victims.foldl dropTable s

/-- `invalidate_cache`: the uid that is re-drawn is the *linker's* (`settings._cache_uid`); the uid that
enters the physical-name hash is the `DatabaseAPI`'s and stays as it is. What makes later requests
recompute is that every table Splink created is dropped from the database
(`delete_tables_created_by_splink_from_db`) before the dict is emptied. -/
def invalidate (s : State) : State := { deleteCreated s with cache := [] }

/-- the input data changed and `invalidate_cache()` was called -/
def mutateInvalidate (s : State) : State := invalidate { s with data := s.data + 1 }

/-- `_forget_results_computed_from`, last line (`self._cache_uid = ascii_uid(8)`): the salt that enters the
physical-name hash is re-drawn.  A fresh value is modelled as the successor: it differs from every salt
used before.  Nothing else changes: no table is dropped, no dict entry is removed (the deletions of stale
entries stored under a templated name are separate `forgetNamed` events). -/
def resalt (s : State) : State := { s with uid := s.uid + 1 }

/-- forget every entry stored under a templated name (dict only; the tables stay in the catalog) -/
def forgetAllNamed (s : State) : State :=
  { s with cache := s.cache.filter fun q => match q.1 with | .named _ => false | .phys _ => true }

/-- A table was replaced under its name THROUGH Splink (`register_multiple_tables(..., overwrite=True)` on an
existing name): the data change (`data + 1`), the results computed from the replaced table that are stored
under a templated name are forgotten, and the salt is re-drawn (`_forget_results_computed_from`).  The tables
and the entries stored under their own physical name are left alone (the caller may still hold them, and
`delete_tables_created_by_splink_from_db` must still find them); they can no longer be hit, because every
later request hashes its SQL with the new salt.
Abstraction: this model has ONE `data` counter standing for all inputs, so after the change every named entry
is stale and `reregister` forgets them all; the real code forgets exactly the named entries whose
`sql_used_to_create` mentions (transitively) the replaced table — in a replayed trace those deletions are the
observed `forgetNamed` events followed by `resalt`. -/
def reregister (s : State) : State := resalt (forgetAllNamed { s with data := s.data + 1 })

inductive Op
  | req (r : Req)
  /-- `compute_df_concat_with_tf` & co: compute through the cache, then also store under the templated name -/
  | computeNamed (r : Req)
  | drop (p : Phys)
  | forgetNamed (templ : Nat)
  | invalidate
  | mutateInvalidate
  /-- the input data change BEHIND Splink's back and `invalidate_cache()` is NOT called (e.g. an `INSERT` into an
  input table, a registered view whose source changed).  A change THROUGH Splink — a second linker re-registering
  `__splink__input_table_0` on a shared DatabaseAPI, `register_table(..., overwrite=True)` — is `reregister`. -/
  | mutate
  | deleteCreated
  /-- the salt of the hashed names is re-drawn (`_forget_results_computed_from`) -/
  | resalt
  /-- the input data change THROUGH Splink: a table is replaced under its name with `overwrite=True` -/
  | reregister
  deriving Repr

section
variable (hash : Nat → Nat → Nat) (eval : Nat → Nat → Nat)
def applyOp (s : State) : Op → State
  | .req r => (request hash eval s r).state
  | .computeNamed r =>
    let res := request hash eval s r
    { res.state with cache := cacheSet (.named r.templ) ⟨⟨r.templ, hash r.text s.uid⟩, res.val, true⟩ res.state.cache }
  | .mutate => { s with data := s.data + 1 }
  | .drop p => dropTable s p
  | .forgetNamed t => forgetNamed s t
  | .invalidate => invalidate s
  | .mutateInvalidate => mutateInvalidate s
  | .deleteCreated => deleteCreated s
  | .resalt => resalt s
  | .reregister => reregister s

def run (s : State) (ops : List Op) : State := ops.foldl (applyOp hash eval) s
end

def init : State := { uid := 0, cache := [], db := [], data := 0 }

/-! ## Realtime SQL cache (`realtime.py:SQLCache`) -/

/-- What a call of `compare_records` is determined by. -/
structure RtCall where
  settings : Nat               -- identity/content code of the settings argument
  dialect : Nat
  includeFoundByBlockingRules : Bool
  deriving DecidableEq, Repr

/-- `SQLCache` parametrised by its key function: returns the SQL used for each call, the cache
being filled on a miss. `sqlOf` is the SQL the call generates without a cache. -/
def rtRun {κ : Type} [DecidableEq κ] (key : RtCall → κ) (sqlOf : RtCall → Nat) :
    List (κ × Nat) → List RtCall → List Nat
  | _, [] => []
  | c, x :: xs =>
    match c.find? fun p => p.1 = key x with
    | some p => p.2 :: rtRun key sqlOf c xs
    | none => sqlOf x :: rtRun key sqlOf ((key x, sqlOf x) :: c) xs

end SplinkVerif.Cache
