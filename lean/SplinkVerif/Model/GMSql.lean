import SplinkVerif.Model.Rel
import SplinkVerif.Generated.GMSql
/-!
# `linker.clustering.compute_graph_metrics` at the level of the SQL it emits (dedupe_only linker)

The statements are the regenerated terms of `Generated/GMSql.lean`.  Hand-written here: the Python control flow of
`_compute_metrics_nodes`, `compute_igraph_metrics` (the node relabelling `row_number() OVER (ORDER BY 1) - 1` and igraph's
bridge finder are parameters) and `_compute_metrics_clusters`.
-/
namespace SplinkVerif.GMSql
open SplinkVerif.Rel

def emptyDb : Db := fun _ => []

/-- `df_predict (unique_id_l, unique_id_r, match_probability)`, `df_clustered (cluster_id, unique_id, v)`. -/
def baseDb (predict clustered : List Row) : Db :=
  Db.set (Db.set emptyDb "predict_in" predict) "clustered_in" clustered

/-- `_compute_metrics_nodes`: `__splink__graph_metrics_nodes` (composite_unique_id, cluster_id, node_degree, node_centrality). -/
def nodes (predict clustered : List Row) (thr : Val) : List Row :=
  (runStmts (baseDb predict clustered) (Gen.GMSql.nodeStmts thr)) "__splink__graph_metrics_nodes"

/-- `__splink__nodes_integer_mapping` for the row order `order` the engine happens to give `row_number() OVER (ORDER BY 1)`:
`(composite_unique_id, position)`. -/
def mapping (order : List Val) : List Row :=
  (List.range order.length).map fun i => [order.getD i .null, Val.int (i : Int)]

/-- `__splink__edges_with_mapped_ids` (node_l, node_r) in the relabelled ids — what igraph is given. -/
def edgesForIgraph (predict : List Row) (order : List Val) (thr : Val) : List Row :=
  (runStmts (Db.set (baseDb predict []) "__splink__nodes_integer_mapping" (mapping order))
    (Gen.GMSql.edgeStmtsBefore thr)) "__splink__edges_with_mapped_ids"

/-- `compute_igraph_metrics`: `bridgeIdx` = the row indices igraph reports as bridges (`df.iloc[bridges_indices]`);
result `__splink__graph_metrics_edges` (composite_unique_id_l, composite_unique_id_r, is_bridge). -/
def edges (bridges : List Row → List Nat) (predict : List Row) (order : List Val) (thr : Val) : List Row :=
  let db0 := Db.set (baseDb predict []) "__splink__nodes_integer_mapping" (mapping order)
  let db1 := runStmts db0 (Gen.GMSql.edgeStmtsBefore thr)
  let em := db1 "__splink__edges_with_mapped_ids"
  let bridgeRows := (bridges em).filterMap fun k => em[k]?
  (runStmts (Db.set db1 "bridges_in" bridgeRows) Gen.GMSql.edgeStmtsAfter) "__splink__graph_metrics_edges"

/-- `_compute_metrics_clusters`: `__splink__graph_metrics_clusters` (cluster_id, n_nodes, n_edges, density, cluster_centralisation). -/
def clusters (nodesTab : List Row) : List Row :=
  (runStmts (Db.set emptyDb "__splink__graph_metrics_nodes" nodesTab) Gen.GMSql.clusterStmts)
    "__splink__graph_metrics_clusters"

end SplinkVerif.GMSql
