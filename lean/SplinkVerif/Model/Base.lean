/-!
# Shared foundations for the executable models (no Mathlib)

* `B3` — SQL three-valued logic (`none` = NULL).
* `Tab` — memoising tabulation of a function on `0..n-1` that is *extensionally
  the identity* (`Tab.get_build`), so models can be written over `Nat → α` for
  the proofs and still run in linear time in the driver.
* `Reach` — reflexive–transitive closure used for graph statements.
-/
namespace SplinkVerif

/-- SQL boolean: `none` is NULL. -/
abbrev B3 := Option Bool

namespace B3
def and3 : B3 → B3 → B3
  | some false, _ => some false
  | _, some false => some false
  | some true, some true => some true
  | _, _ => none
def or3 : B3 → B3 → B3
  | some true, _ => some true
  | _, some true => some true
  | some false, some false => some false
  | _, _ => none
def not3 : B3 → B3
  | some b => some (!b)
  | none => none
/-- `WHERE`/`ON`/`CASE WHEN` keep a row iff the predicate is TRUE. -/
def isTrue : B3 → Bool
  | some true => true
  | _ => false
/-- `coalesce(x, false)` -/
def coalesceF : B3 → Bool
  | some b => b
  | none => false
/-- `x IS NULL` -/
def isNull : B3 → Bool
  | none => true
  | _ => false
end B3

/-- A function on `0..n-1` tabulated in an array, with the function itself kept
as fall-back outside the range.  `Tab.get (Tab.build n f) = f` (`Tab.get_build`),
so models are written over `Nat → α` for the proofs and still run as array
look-ups in the driver.  (A plain `def tab n f : Nat → α` is eta-expanded by the
compiler and would rebuild the array on every call.) -/
structure Tab (α : Type) where
  arr : Array α
  fn  : Nat → α

@[noinline] def Tab.build {α : Type} (n : Nat) (f : Nat → α) : Tab α :=
  ⟨Array.ofFn (n := n) (fun i => f i.val), f⟩

def Tab.get {α : Type} (t : Tab α) (i : Nat) : α :=
  if h : i < t.arr.size then t.arr[i] else t.fn i

theorem Tab.get_mk {α : Type} (a : Array α) (f : Nat → α) (i : Nat)
    (ha : ∀ (h : i < a.size), a[i] = f i) : (Tab.mk a f).get i = f i := by
  unfold Tab.get
  by_cases h : i < a.size
  · simp [h, ha h]
  · simp [h]

@[simp] theorem Tab.get_build {α : Type} (n : Nat) (f : Nat → α) (i : Nat) :
    (Tab.build n f).get i = f i := by
  unfold Tab.build
  apply Tab.get_mk
  intro h
  simp

theorem Tab.get_build_fun {α : Type} (n : Nat) (f : Nat → α) :
    (Tab.build n f).get = f := funext (Tab.get_build n f)

/-- Minimum of a list of naturals, starting from `init` (SQL `min` over a
non-empty group is modelled with `init` a member of the group). -/
def minOver (l : List Nat) (init : Nat) : Nat := l.foldl min init

/-- Reflexive–transitive closure of a relation on `Nat`. -/
inductive Reach (adj : Nat → Nat → Prop) : Nat → Nat → Prop
  | refl (i : Nat) : Reach adj i i
  | tail {i j k : Nat} : Reach adj i j → adj j k → Reach adj i k

end SplinkVerif
