import SplinkVerif.Model.Base
/-!
# Model of Splink's descriptive outputs (C20)

One `def` per SQL statement / CTE / Python helper, in the order of the code:

* `tfTable`            — `term_frequencies.py: term_frequencies_for_single_column_sql`
                         (`compute_tf_table`, `compute_all_term_frequencies_sqls`)
* `leftJoinTf`         — `term_frequencies.py: _join_tf_to_df_concat_sql` (one `LEFT JOIN` per TF column)
* `completenessCol`    — `completeness.py: completeness_data` (one parenthesised `GROUP BY` sub-select per column,
                         `UNION ALL`-ed by `completeness`)
* `cvd`                — `comparison_vector_distribution.py: comparison_vector_distribution_sql`
* `bestBin`, `chooseWidth*`, `binLow*`, `histogram` — `match_weights_histogram.py: _bins`, `_hist_sql`, `histogram_data`
* `roundHalfAway`, `roundUnitsFloat`, `unlProportions`, `unlinkables` — `unlinkables.py: unlinkables_data`

Values of a column are `Option Nat` codes (`none` = SQL NULL); every frequency /
share is kept as an exact pair of naturals (numerator, denominator) — the
division to a float is the only thing the engines add (`float8` for term
frequencies, 32-bit `float` in DuckDB for completeness / proportions / `prop`).
`ORDER BY` clauses of the final selects only order the presentation and are not
modelled (the harness checks the order on the real output separately); the
`ORDER BY` inside the window `sum(prop) over (order by match_probability)` is
modelled by value (`RANGE UNBOUNDED PRECEDING`: all rows whose key is ≤ the current key).
-/
namespace SplinkVerif.Descriptive

/-- A cell: `none` is SQL NULL. -/
abbrev Val := Option Nat

/-- `count(col)`: the number of non-NULL cells. -/
def countNonNull (col : List Val) : Nat := (col.filter fun v => v.isSome).length

/-- The rows surviving `where col is not null`. -/
def nonNull (col : List Val) : List Nat := col.filterMap id

/-- `select k, count(*) … group by k`: one row per distinct key with its multiplicity. -/
def groupCount {K : Type} [BEq K] (ks : List K) : List (K × Nat) :=
  ks.eraseDups.map fun k => (k, (ks.filter fun x => x == k).length)

/-! ## Term frequencies -/

/-- A row of `__splink__df_tf_<col>`: the value and `tf = num / den`. -/
structure TfRow where
  value : Nat
  num : Nat
  den : Nat
  deriving Repr, DecidableEq

/-- `select col, cast(count(*) as float8) / (select count(col) from t) as tf_col
    from t where col is not null group by col`. -/
def tfTable (col : List Val) : List TfRow :=
  (groupCount (nonNull col)).map fun g => { value := g.1, num := g.2, den := countNonNull col }

/-- `from __splink__df_concat left join tf on concat.col = tf.col`: per input row one output row for every
matching row of the TF table (`NULL = x` is never TRUE), or one NULL-extended row when nothing matches.
The output is `(col, tf_col)` per row. -/
def leftJoinTf (col : List Val) (tf : List TfRow) : List (Val × Option (Nat × Nat)) :=
  col.flatMap fun v =>
    let ms : List TfRow := match v with
      | none => []
      | some x => tf.filter fun r => r.value == x
    match ms with
    | [] => [(v, none)]
    | _ => ms.map fun r => (v, some (r.num, r.den))

/-! ## Completeness -/

/-- A row of `__splink__df_all_column_completeness` (for one column):
`total_null_rows = count(*) - count(col)`, `total_rows_inc_nulls = count(*)`,
`completeness = count(col) * 1.0 / count(*)` kept as `nonNullRows / totalRows`. -/
structure ComplRow where
  sd : Nat
  nullRows : Nat
  totalRows : Nat
  nonNullRows : Nat
  deriving Repr, DecidableEq

/-- The per-column sub-select: `group by __completeness_source_dataset`.  `sd` is the source dataset of each
row of the vertically concatenated table (a single constant for one input table), `col` the column. -/
def completenessCol (sd : List Nat) (col : List Val) : List ComplRow :=
  let rows := sd.zip col
  (rows.map (·.1)).eraseDups.map fun d =>
    let g := (rows.filter fun r => r.1 == d).map (·.2)
    { sd := d, nullRows := g.length - countNonNull g, totalRows := g.length, nonNullRows := countNonNull g }

/-- `… union all …` over the requested columns. -/
def completeness (sd : List Nat) (cols : List (List Val)) : List (List ComplRow) :=
  cols.map (completenessCol sd)

/-! ## Comparison-vector distribution -/

/-- `case when g = -1 then 0 when g = 0 then -1 else g end` -/
def sumGamTerm (g : Int) : Int := if g = -1 then 0 else if g = 0 then -1 else g

/-- A row of `__splink__df_comparison_vector_distribution`; `proportion_of_comparisons = count / total`
with `total = (select count(*) from __splink__df_predict)`. -/
structure CvdRow where
  gammas : List Int
  sumGam : Int
  count : Nat
  total : Nat
  deriving Repr, DecidableEq

/-- `select …, count(*), count(*) / (select count(*) from df_predict) … group by gamma_1, …, gamma_n`. -/
def cvd (pairs : List (List Int)) : List CvdRow :=
  (groupCount pairs).map fun g =>
    { gammas := g.1, sumGam := (g.1.map sumGamTerm).sum, count := g.2, total := pairs.length }

/-! ## Match-weight histogram -/

/-- `_bins`: the loop that keeps the width whose distance to the rough width is smallest
(strict `<`: the first of equally good widths wins). -/
def bestBin {W D : Type} (dist : W → D) (lt : D → D → Bool) (first : W) (ws : List W) : W :=
  ws.foldl (fun best w => if lt (dist w) (dist best) then w else best) first

/-- `bin_widths` of `_bins`. -/
def binWidthsFloat : List Float := [0.01, 0.1, 0.2, 0.25, 0.5, 1, 2, 5]

/-- `_bins(min, max, num_bins)[1]` at `Float` (what the library runs). -/
def chooseWidthFloat (mn mx numBins : Float) : Float :=
  let rough := (mx - mn) / numBins
  bestBin (fun w => Float.abs (w - rough)) (fun a b => a < b) 0.01 binWidthsFloat

/-- `bin_widths` in hundredths. -/
def binWidthsCenti : List Int := [1, 10, 20, 25, 50, 100, 200, 500]

/-- `_bins` on exact numbers: the rough width is `num / den` hundredths (`den > 0`); distances are compared
after multiplying by `den`. -/
def chooseWidthCenti (num : Int) (den : Nat) : Int :=
  bestBin (fun w => (w * den - num).natAbs) (fun a b => decide (a < b)) 1 binWidthsCenti

/-- `bin_width * floor(match_weight / bin_width)` at `Float` (`_hist_sql`). -/
def binLowFloat (bw w : Float) : Float := bw * Float.floor (w / bw)

/-- The same on integers (weights and width in a common unit; `Int` division is floor division for `bw > 0`). -/
def binLowInt (bw w : Int) : Int := bw * (w / bw)

/-- `__splink__df_hist_raw`: `group by bin_low` with `count(*)`.  `binLow` maps a weight to its group key. -/
def histogram {W K : Type} [BEq K] (binLow : W → K) (ws : List W) : List (K × Nat) :=
  groupCount (ws.map binLow)

/-- Group key of a `Float` bin edge (IEEE bits; `-0.0` and `0.0` are one SQL group). -/
def floatKey (x : Float) : Nat := if x == 0.0 then (0.0 : Float).toBits.toNat else x.toBits.toNat

/-! ## Unlinkables -/

/-- DuckDB's `round(x, k)` is `round(x * 10^k) / 10^k` with C `round` (half away from zero); the result in
units of `10^-k` (`scale = 10^k`).  SQLite rounds the decimal expansion of the double instead; the two agree
unless `x * 10^k` is within an ulp of a half-integer. -/
def roundUnitsFloat (scale x : Float) : Int := (Float.round (x * scale)).toInt64.toInt

/-- Half-away-from-zero rounding of the exact rational `n / d` to units of `1 / scale`. -/
def roundHalfAway (n : Int) (d scale : Nat) : Int :=
  if 0 ≤ n then (2 * n * scale + d) / (2 * d) else -((2 * (-n) * scale + d) / (2 * d))

/-- `max(match_weight)` over a non-empty group. -/
def maxOver (l : List Int) : Int :=
  match l with
  | [] => 0
  | a :: as => as.foldl max a

/-- A row of `__splink__df_unlinkables_proportions`: `prop = count / total`. -/
structure PropRow where
  weight : Int
  prob : Int
  count : Nat
  total : Nat
  deriving Repr, DecidableEq

/-- `select max(match_weight), match_probability, count(*) / sum(count(*)) over () group by match_probability`
over the rounded self-link rows `(round(match_weight, 2), round(match_probability, 5))` (integers: hundredths,
and units of 10^-5). -/
def unlProportions (rows : List (Int × Int)) : List PropRow :=
  (rows.map (·.2)).eraseDups.map fun p =>
    let g := rows.filter fun r => r.2 == p
    { weight := maxOver (g.map (·.1)), prob := p, count := g.length, total := rows.length }

/-- A row of the result: `cum_prop = cumCount / total`. -/
structure UnlRow where
  weight : Int
  prob : Int
  count : Nat
  cumCount : Nat
  total : Nat
  deriving Repr, DecidableEq

/-- `select *, sum(prop) over (order by match_probability) as cum_prop from proportions where match_probability < 1`
(`one` = 1 in the unit of the probabilities, 10^5).  `WHERE` is applied before the window. -/
def unlinkables (one : Int) (rows : List (Int × Int)) : List UnlRow :=
  let kept := (unlProportions rows).filter fun r => decide (r.prob < one)
  kept.map fun r =>
    { weight := r.weight, prob := r.prob, count := r.count,
      cumCount := ((kept.filter fun r' => decide (r'.prob ≤ r.prob)).map (·.count)).sum, total := r.total }

end SplinkVerif.Descriptive
