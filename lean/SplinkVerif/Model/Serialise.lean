/-!
# Model of Splink's model (de)serialisation  (property C09)

Mirrors, method by method:

* `comparison_level.py`  `ComparisonLevel.__init__` (defaults), `label_for_charts`, `as_dict`
* `comparison_level_library.py`  `CustomLevel._convert_to_creator`, `create_label_for_charts`
* `comparison_level_creator.py`  `configure`, `create_level_dict`, `get_comparison_level`
* `comparison.py`  `Comparison.__init__` (names, description, comparison vector values), `as_dict`
* `comparison_creator.py`  `create_comparison_dict`, `get_comparison`, `create_description`
* `comparison_library.py`  `CustomComparison` (`_convert_to_creator`, `create_output_column_name`)
* `blocking.py`  `BlockingRule/SaltedBlockingRule/ExplodingBlockingRule.as_dict`, `blocking_rule_to_obj`
* `blocking_rule_creator.py`  `create_blocking_rule_dict`;  `blocking_rule_library.py` `CustomRule`
* `settings.py`  `Settings.__init__`, `_simple_dict_entries`, `as_dict`, `TrainingSettings.as_dict`,
  `ColumnInfoSettings.as_dict`
* `settings_creator.py`  `SettingsCreator.from_path_or_dict`, `get_settings`
* `linker.py`  constructor (`linker_uid`, dialect of the backend), `misc.py` `save_model_to_json`

Dictionaries are *typed*: one structure per `as_dict`, every key that the code may omit is an
`Option` (`none` = key absent; a JSON `null` is equivalent to absent on every path modelled here,
because `create_level_dict` filters `is not None` and the dataclass defaults are only used for
absent keys).  Numbers are exact tokens (`Num`): JSON text distinguishes `1` from `1.0`, floats are
carried by their IEEE bit pattern, so nothing is rounded anywhere in the model.

Outside the well-formedness predicates at the end of this file the real code *raises* (a null
level with an m value, an empty label, `salting_partitions = 1`); the model is total and simply
returns something there — the harness checks that the real code is loud on those inputs.
-/
namespace SplinkVerif.Serialise

/-- A JSON number token: Python `int` or Python `float` (IEEE bits). -/
inductive Num where
  | int (i : Int)
  | flt (bits : Nat)
  deriving DecidableEq, Repr, Inhabited

/-- bits of `1.0` (default `tf_adjustment_weight`). -/
def oneBits : Nat := 4607182418800017408
/-- bits of `-0.0`. -/
def negZeroBits : Nat := 9223372036854775808

/-- Python `x != 0` is false exactly for `0`, `0.0`, `-0.0`. -/
def Num.isZero : Num → Bool
  | .int i => i == 0
  | .flt b => b == 0 || b == negZeroBits

/-- Python truthiness of a string (`if s:` / `s or default`). -/
def truthy (s : String) : Bool := s != ""

/-- `a or b` on optional strings. -/
def orElse (a : Option String) (b : String) : String :=
  match a with
  | some s => if truthy s then s else b
  | none => b

/-! ## Comparison levels -/

/-- `ComparisonLevel._m_probability` / `_u_probability`: `None`, the
`LEVEL_NOT_OBSERVED_TEXT` placeholder, or a number. -/
inductive Prob where
  | unset
  | notObserved
  | val (n : Num)
  deriving DecidableEq, Repr, Inhabited

/-- The instance attributes of a `ComparisonLevel` that `as_dict` reads. -/
structure Level where
  sql : String
  label : Option String
  isNull : Bool
  tfCol : Option String
  tfWeight : Num
  tfMinU : Num
  disableTf : Bool
  m : Prob
  u : Prob
  fixM : Bool
  fixU : Bool
  deriving DecidableEq, Repr, Inhabited

/-- What `ComparisonLevel.as_dict` can emit / what a level dict can contain. -/
structure LevelDict where
  sql_condition : String
  label_for_charts : Option String := none
  m_probability : Option Num := none
  u_probability : Option Num := none
  fix_m_probability : Option Bool := none
  fix_u_probability : Option Bool := none
  tf_adjustment_column : Option String := none
  tf_minimum_u_value : Option Num := none
  tf_adjustment_weight : Option Num := none
  is_null_level : Option Bool := none
  disable_tf_exact_match_detection : Option Bool := none
  deriving DecidableEq, Repr, Inhabited

/-- `ComparisonLevel.label_for_charts`: `self._label_for_charts or str(self.comparison_vector_value)`.
`cvv` is the printed comparison vector value (`""` stands for a level outside a `Comparison`,
where the real getter raises). -/
def Level.labelForCharts (cvv : String) (l : Level) : String := orElse l.label cvv

/-- `as_dict` emits m/u only `if self._m_probability is not None and self._m_is_trained`
(`_m_is_trained` is false for the not-observed placeholder). -/
def Prob.emit : Prob → Option Num
  | .val n => some n
  | _ => none

/-- `ComparisonLevel.as_dict`, condition by condition, in the order of the code. -/
def Level.asDict (cvv : String) (l : Level) : LevelDict :=
  let lab := l.labelForCharts cvv
  { sql_condition := l.sql
    -- if self.label_for_charts:
    label_for_charts := if truthy lab then some lab else none
    m_probability := l.m.emit
    u_probability := l.u.emit
    fix_m_probability := some l.fixM
    fix_u_probability := some l.fixU
    -- if self._has_tf_adjustments:   (column is not None)
    tf_adjustment_column := l.tfCol
    --     if self._tf_minimum_u_value != 0:
    tf_minimum_u_value := match l.tfCol with
      | some _ => if l.tfMinU.isZero then none else some l.tfMinU
      | none => none
    --     output["tf_adjustment_weight"] = self._tf_adjustment_weight      (no truthiness test: F3 repaired)
    tf_adjustment_weight := match l.tfCol with
      | some _ => some l.tfWeight
      | none => none
    -- if self.is_null_level:
    is_null_level := if l.isNull then some true else none
    -- if self._disable_tf_exact_match_detection:
    disable_tf_exact_match_detection := if l.disableTf then some true else none }

def Prob.ofOpt : Option Num → Prob
  | some n => .val n
  | none => .unset

/-- `ComparisonLevel.__init__(**level_dict)`: the keyword defaults of the constructor. -/
def Level.ofDict (d : LevelDict) : Level :=
  { sql := d.sql_condition
    label := d.label_for_charts
    isNull := d.is_null_level.getD false
    tfCol := d.tf_adjustment_column
    tfWeight := d.tf_adjustment_weight.getD (.flt oneBits)
    tfMinU := d.tf_minimum_u_value.getD (.flt 0)
    disableTf := d.disable_tf_exact_match_detection.getD false
    m := Prob.ofOpt d.m_probability
    u := Prob.ofOpt d.u_probability
    fixM := d.fix_m_probability.getD false
    fixU := d.fix_u_probability.getD false }

/-- `CustomLevel._convert_to_creator(dict)` + `configure(**configurables)` + `create_level_dict`:
the label defaults to the SQL text (`create_label_for_charts`), every configured attribute that
`is not None` is copied. -/
def creatorLevelDict (d : LevelDict) : LevelDict :=
  { d with label_for_charts := some (match d.label_for_charts with
      | some s => s
      | none => d.sql_condition) }

/-- The path every level takes at construction (`create_comparison_dict`):
dict → `CustomLevel` → `ComparisonLevel` → `.as_dict()` (outside a comparison) →
`ComparisonLevel(**dict)` inside `Comparison.__init__`. -/
def Level.fromDict (d : LevelDict) : Level :=
  Level.ofDict (Level.asDict "" (Level.ofDict (creatorLevelDict d)))

/-! ## Comparisons -/

structure Comparison where
  outputColumnName : String
  description : String
  levels : List Level
  deriving DecidableEq, Repr, Inhabited

structure ComparisonDict where
  output_column_name : Option String := none
  comparison_levels : List LevelDict
  comparison_description : Option String := none
  deriving DecidableEq, Repr, Inhabited

/-- `Comparison._num_levels`. -/
def numLevels (ls : List Level) : Nat := (ls.filter (fun l => !l.isNull)).length

/-- The counter loop of `Comparison.__init__`: null levels get `-1`, the others count down from
`num_levels - 1`.  Returns the printed values (`str(cvv)`). -/
def cvvStrs : List Level → Int → List String
  | [], _ => []
  | l :: ls, counter =>
    if l.isNull then "-1" :: cvvStrs ls counter
    else toString counter :: cvvStrs ls (counter - 1)

def zipWithCvv (ls : List Level) : List (String × Level) :=
  (cvvStrs ls ((numLevels ls : Int) - 1)).zip ls

/-- `Comparison.as_dict`. -/
def Comparison.asDict (c : Comparison) : ComparisonDict :=
  { output_column_name := some c.outputColumnName
    comparison_levels := (zipWithCvv c.levels).map (fun p => Level.asDict p.1 p.2)
    comparison_description := some c.description }

/-- Which `CustomComparison.create_description` is modelled: the code as it is (`current`: the class
name, whatever the user wrote — defect F9) or the one-line repair (`patched`:
`return self._description or super().create_description()`). -/
inductive Version where
  | current
  | patched
  deriving DecidableEq, Repr, Inhabited

def className : String := "CustomComparison"

/-- `ComparisonCreator.create_description` as seen from `CustomComparison`. -/
def createDescription (v : Version) (userDescription : Option String) : String :=
  match v with
  | .current => className
  | .patched => orElse userDescription className

/-- `CustomComparison(**dict).get_comparison(dialect)` = `Comparison(**create_comparison_dict)`.
`defName` stands for `_default_output_column_name` (derived from the parsed SQL of the levels;
not modelled — the theorems hold for every such function). -/
def Comparison.fromDict (v : Version) (defName : List Level → String) (d : ComparisonDict) : Comparison :=
  let levels := d.comparison_levels.map Level.fromDict
  -- output_column_name or self._default_output_column_name()
  let name := orElse d.output_column_name (defName levels)
  -- comparison_description or self._default_comparison_description()
  let desc := orElse (some (createDescription v d.comparison_description)) name
  { outputColumnName := name, description := desc, levels := levels }

/-! ## Blocking rules -/

inductive Rule where
  | plain (sql dialect : String)
  | salted (sql dialect : String) (partitions : Nat)
  | exploding (sql dialect : String) (cols : List String)
  deriving DecidableEq, Repr, Inhabited

structure RuleDict where
  blocking_rule : String
  sql_dialect : Option String := none
  salting_partitions : Option Nat := none
  arrays_to_explode : Option (List String) := none
  deriving DecidableEq, Repr, Inhabited

/-- `BlockingRule.as_dict` and its two overrides. -/
def Rule.asDict : Rule → RuleDict
  | .plain s d => { blocking_rule := s, sql_dialect := some d }
  | .salted s d n => { blocking_rule := s, sql_dialect := some d, salting_partitions := some n }
  | .exploding s d cs => { blocking_rule := s, sql_dialect := some d, arrays_to_explode := some cs }

/-- `from_path_or_dict` deletes the rule's `sql_dialect` (so `CustomRule.create_sql` never
translates), `create_blocking_rule_dict(backend)` re-stamps the backend's dialect and keeps
`salting_partitions` / `arrays_to_explode` only if truthy, `blocking_rule_to_obj` picks the class. -/
def Rule.fromDict (backend : String) (d : RuleDict) : Rule :=
  match d.salting_partitions with
  | some (n + 1) => .salted d.blocking_rule backend (n + 1)
  | _ =>
    match d.arrays_to_explode with
    | some (c :: cs) => .exploding d.blocking_rule backend (c :: cs)
    | _ => .plain d.blocking_rule backend

/-! ## Settings -/

structure Settings where
  linkType : String
  prior : Num
  retainMatching : Bool
  retainIntermediate : Bool
  additionalCols : List String
  dialect : String
  linkerUid : Option String
  emConvergence : Num
  maxIterations : Num
  bfPrefix : String
  tfPrefix : String
  gammaPrefix : String
  uidCol : String
  sdsCol : String
  rules : List Rule
  comparisons : List Comparison
  deriving DecidableEq, Repr, Inhabited

structure SettingsDict where
  link_type : String
  probability_two_random_records_match : Option Num := none
  retain_matching_columns : Option Bool := none
  retain_intermediate_calculation_columns : Option Bool := none
  additional_columns_to_retain : Option (List String) := none
  sql_dialect : Option String := none
  linker_uid : Option String := none
  em_convergence : Option Num := none
  max_iterations : Option Num := none
  bayes_factor_column_prefix : Option String := none
  term_frequency_adjustment_column_prefix : Option String := none
  comparison_vector_value_column_prefix : Option String := none
  unique_id_column_name : Option String := none
  source_dataset_column_name : Option String := none
  blocking_rules_to_generate_predictions : List RuleDict := []
  comparisons : List ComparisonDict := []
  deriving DecidableEq, Repr, Inhabited

/-- `Settings.as_dict` = `_simple_dict_entries` (+ `TrainingSettings.as_dict`,
`ColumnInfoSettings.as_dict`) + rules + comparisons; this is what `save_model_to_json` dumps. -/
def Settings.asDict (s : Settings) : SettingsDict :=
  { link_type := s.linkType
    probability_two_random_records_match := some s.prior
    retain_matching_columns := some s.retainMatching
    retain_intermediate_calculation_columns := some s.retainIntermediate
    additional_columns_to_retain := some s.additionalCols
    sql_dialect := some s.dialect
    linker_uid := s.linkerUid
    em_convergence := some s.emConvergence
    max_iterations := some s.maxIterations
    bayes_factor_column_prefix := some s.bfPrefix
    term_frequency_adjustment_column_prefix := some s.tfPrefix
    comparison_vector_value_column_prefix := some s.gammaPrefix
    unique_id_column_name := some s.uidCol
    source_dataset_column_name := some s.sdsCol
    blocking_rules_to_generate_predictions := s.rules.map Rule.asDict
    comparisons := s.comparisons.map Comparison.asDict }

/-- bits of `0.0001` (default prior and `em_convergence`). -/
def tenThousandthBits : Nat := 4547007122018943789

/-- `Linker(df, path, db_api)`: `from_path_or_dict` (drops `sql_dialect`), the `SettingsCreator`
dataclass defaults, a fresh `linker_uid` if none is stored, `get_settings(backend dialect)`. -/
def Settings.fromDict (v : Version) (defName : List Level → String) (backend freshUid : String)
    (d : SettingsDict) : Settings :=
  { linkType := d.link_type
    prior := d.probability_two_random_records_match.getD (.flt tenThousandthBits)
    retainMatching := d.retain_matching_columns.getD true
    retainIntermediate := d.retain_intermediate_calculation_columns.getD false
    additionalCols := d.additional_columns_to_retain.getD []
    dialect := backend
    linkerUid := some (d.linker_uid.getD freshUid)
    emConvergence := d.em_convergence.getD (.flt tenThousandthBits)
    maxIterations := d.max_iterations.getD (.int 25)
    bfPrefix := d.bayes_factor_column_prefix.getD "bf_"
    tfPrefix := d.term_frequency_adjustment_column_prefix.getD "tf_"
    gammaPrefix := d.comparison_vector_value_column_prefix.getD "gamma_"
    uidCol := d.unique_id_column_name.getD "unique_id"
    sdsCol := d.source_dataset_column_name.getD "source_dataset"
    rules := d.blocking_rules_to_generate_predictions.map (Rule.fromDict backend)
    comparisons := d.comparisons.map (Comparison.fromDict v defName) }

/-- Save then load on backend `b` (the JSON text in between is the typed dictionary). -/
def reload (v : Version) (defName : List Level → String) (b uid : String) (s : Settings) : Settings :=
  Settings.fromDict v defName b uid s.asDict

/-! ## Well-formedness (decidable): what every model built through the public API satisfies -/

/-- A level as produced by construction and training:
* the label is present and non-empty (`create_label_for_charts` falls back to the SQL text);
* a null level carries no m/u (the getters raise otherwise);
* no `LEVEL_NOT_OBSERVED` placeholder (it only ever lives in the training history);
* TF weight / minimum-u are at their defaults when there is no TF column (they are not serialised
  then, and have no effect), the TF column is non-empty, a zero minimum-u is the default `0.0`. -/
def Level.wf (l : Level) : Bool :=
  (match l.label with | some s => truthy s | none => false) &&
  (!l.isNull || (l.m == .unset && l.u == .unset)) &&
  (l.m != .notObserved) && (l.u != .notObserved) &&
  (match l.tfCol with
    | none => l.tfWeight == .flt oneBits && l.tfMinU == .flt 0
    | some c => truthy c && (!l.tfMinU.isZero || l.tfMinU == .flt 0))

/-- A comparison: non-empty name and description, well-formed levels.  For the `current` code
the description is additionally the class name (anything else is lost: F9). -/
def Comparison.wf (v : Version) (c : Comparison) : Bool :=
  truthy c.outputColumnName && truthy c.description &&
  (v == .patched || c.description == className) &&
  c.levels.all Level.wf

/-- A rule stamped with the linker's dialect; salted rules have > 1 partitions
(`SaltedBlockingRule.__init__` raises otherwise), exploding rules name at least one column. -/
def Rule.wf (b : String) : Rule → Bool
  | .plain _ d => d == b
  | .salted _ d n => d == b && decide (2 ≤ n)
  | .exploding _ d cs => d == b && !cs.isEmpty

def Settings.wf (v : Version) (b : String) (s : Settings) : Bool :=
  s.dialect == b && s.linkerUid.isSome &&
  s.rules.all (Rule.wf b) && s.comparisons.all (Comparison.wf v)

/-- `s` with every dialect stamp replaced (what loading on another backend does). -/
def Rule.withDialect (b : String) : Rule → Rule
  | .plain s _ => .plain s b
  | .salted s _ n => .salted s b n
  | .exploding s _ cs => .exploding s b cs

def Settings.withDialect (b : String) (s : Settings) : Settings :=
  { s with dialect := b, rules := s.rules.map (Rule.withDialect b) }

/-! ## Training (the only mutation of a constructed model that is serialised) -/

/-- `cl.m_probability = value` / `cl.u_probability = value` (`_populate_m_u_from_trained_values`,
`estimate_u_using_random_sampling`, `estimate_m_from_*`) on a non-null level. -/
def Level.setM (n : Num) (l : Level) : Level := if l.isNull then l else { l with m := .val n }
def Level.setU (n : Num) (l : Level) : Level := if l.isNull then l else { l with u := .val n }

/-- Scoring reads a level's parameters through the getters: value, `1e-6` for the placeholder,
the positional default for `None`.  Two levels with equal `m`, `u` at equal positions score alike;
`paramsOf` is what the round trip must preserve for `predict()` to be unchanged. -/
def Level.paramsOf (l : Level) : Bool × Prob × Prob × Option String × Num × Num × Bool :=
  (l.isNull, l.m, l.u, l.tfCol, l.tfWeight, l.tfMinU, l.disableTf)

end SplinkVerif.Serialise
