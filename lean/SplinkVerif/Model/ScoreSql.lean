import SplinkVerif.Model.Rel
/-!
# The scoring SQL of `predict()` for ANY model without term-frequency adjustments (hand-written generic form)

The three statements that score the blocked pairs

* `__splink__df_comparison_vectors`  (`comparison_vector_values.py: compute_comparison_vector_values_from_id_pairs_sqls`, second statement;
  the `gamma_<c>` CASE ladder is `comparison.py: Comparison._case_statement` over `ComparisonLevel._when_then_comparison_vector_value_sql`),
* `__splink__df_match_weight_parts`  (`predict.py: predict_from_comparison_vectors_sqls`, first statement; the `bf_<c>` CASE over gamma is
  `Comparison._columns_to_select_for_bayes_factor_parts` over `ComparisonLevel._bayes_factor_sql`),
* `__splink__df_predict`             (second statement; `_combine_prior_and_bfs`, the optional `where log2(…) >= threshold`)

are built by Python loops over the comparisons and over the levels of each comparison.  The functions below are those loops, from the
lists to `Expr` / `Rel`.  `Generated/ScoreSql.lean` (regenerated from the real code on every run) checks by `rfl` that at the shapes of the
capture runs (1, 2 and 3 comparisons with 2 … 5 levels, two / four id columns, with and without threshold) they ARE the translations of
the SQL text the code emits now.

Parameters (what the property quantifies over):
* per level its condition (an arbitrary `Expr` over the row of `blocked_with_cols`), its comparison-vector value and its Bayes-factor
  literal (a `Val`: an exact number `Val.rat q`, or `inf`, see below);
* per comparison the list of its `WHEN` levels in the listed order (any length) and the `ELSE` level;
* the list of comparisons (non-empty: the code emits `cast(p as float8) * ` followed by nothing for an empty list);
* `prior` = the literal `prob_to_bayes_factor(probability_two_random_records_match)`, `thr` = the threshold literal (a match weight);
* `nid` = the number of id columns passed through (2 for dedupe_only, 4 with a source-dataset column);
* `inf` = the value of `cast('Infinity' as float8)` and of `'infinity'` compared with a float8 column: float8's +∞.  `Val` has no
  infinity; the theorems assume of `inf` only that it is neither NULL nor a finite number, and show that `match_probability` never does
  arithmetic with it.

Scope: `retain_matching_columns = False`, `retain_intermediate_calculation_columns = True`, no term-frequency adjustment on any
level, no `match_key` column (at most one blocking rule), `prior ≠ 1`, every comparison ends with its `ELSE` level.  `log2` is an
uninterpreted function (`Val.log2`): `match_weight` and the threshold test are the SAME uninterpreted function of the SAME product.
-/
namespace SplinkVerif.ScoreSql
open SplinkVerif.Rel

/-- one `WHEN <cond> THEN <cvv>` level with its Bayes-factor literal -/
structure Level where
  cond : Expr
  cvv : Int
  bf : Val
deriving Repr, Inhabited

/-- a comparison: the `WHEN` levels in the listed order, then `ELSE <elseCvv>` -/
structure Comparison where
  levels : List Level
  elseCvv : Int
  elseBf : Val
deriving Repr, Inhabited

/-- an integer literal as the parser reads it: `-1` is the negation of `1`, i.e. `0 - 1` -/
def intLit (v : Int) : Expr :=
  if v < 0 then Expr.arith Arith.sub (Expr.lit (Val.int 0)) (Expr.lit (Val.int (-v))) else Expr.lit (Val.int v)

/-- `CASE WHEN c₁ THEN v₁ WHEN c₂ THEN v₂ … ELSE v_else END as gamma_<c>` (`" ".join` over the levels) -/
def gammaCase (c : Comparison) : Expr :=
  c.levels.foldr (fun l acc => Expr.case l.cond (intLit l.cvv) acc) (intLit c.elseCvv)

/-- (cvv, Bayes factor) of every level, the `ELSE` level last -/
def Comparison.pairs (c : Comparison) : List (Int × Val) :=
  c.levels.map (fun l => (l.cvv, l.bf)) ++ [(c.elseCvv, c.elseBf)]

/-- `CASE WHEN gamma_<c> = v₁ THEN cast(bf₁ as float8) … WHEN gamma_<c> = v_else THEN cast(bf_else as float8) END as bf_<c>` (no ELSE:
NULL); `g` = position of `gamma_<c>` -/
def bfCase (g : Nat) (c : Comparison) : Expr :=
  c.pairs.foldr (fun p acc => Expr.case (Expr.cmp Cmp.eq (Expr.col g) (intLit p.1)) (Expr.lit p.2) acc) (Expr.lit Val.null)

/-- the id columns, passed through by every statement -/
def idCols (nid : Nat) : List Expr := (List.range nid).map Expr.col

/-- `__splink__df_comparison_vectors`: ids, `gamma_<c>` per comparison -/
def cvStmt (nid : Nat) (cs : List Comparison) : Rel :=
  Rel.project (idCols nid ++ cs.map gammaCase) (Rel.table "blocked_with_cols")

/-- `gamma_<c>, CASE … END as bf_<c>` per comparison; `g` = position of the first `gamma` column in `__splink__df_comparison_vectors` -/
def partsCols (g : Nat) : List Comparison → List Expr
  | [] => []
  | c :: cs => Expr.col g :: bfCase g c :: partsCols (g + 1) cs

/-- `__splink__df_match_weight_parts`: ids, (`gamma_<c>`, `bf_<c>`) per comparison -/
def partsStmt (nid : Nat) (cs : List Comparison) : Rel :=
  Rel.project (idCols nid ++ partsCols nid cs) (Rel.table "__splink__df_comparison_vectors")

/-- references to the `bf_<c>` columns of `__splink__df_match_weight_parts`; `g` = position of the first `gamma` column there -/
def bfCols (g : Nat) : List Comparison → List Expr
  | [] => []
  | _ :: cs => Expr.col (g + 1) :: bfCols (g + 2) cs

/-- `cast(prior as float8) * bf_1 * bf_2 * …` (`" * ".join`; the parser reads it left-associated) -/
def productExpr (prior : Val) (bfs : List Expr) : Expr :=
  bfs.foldl (fun acc b => Expr.arith Arith.mul acc b) (Expr.lit prior)

/-- `bf_1 = 'infinity' OR bf_2 = 'infinity' OR …` (`" OR ".join`, left-associated) -/
def anyInf (inf : Val) : List Expr → Expr
  | [] => Expr.lit (Val.bool false)
  | b :: bs => bs.foldl (fun acc x => Expr.or acc (Expr.cmp Cmp.eq x (Expr.lit inf))) (Expr.cmp Cmp.eq b (Expr.lit inf))

/-- `CASE WHEN <any term infinite> THEN 1.0 ELSE (P)/(1+(P)) END` -/
def probExpr (inf prior : Val) (bfs : List Expr) : Expr :=
  Expr.case (anyInf inf bfs) (Expr.lit (Val.rat ((1 : Rat) / 1)))
    (Expr.arith Arith.div (productExpr prior bfs) (Expr.arith Arith.add (Expr.lit (Val.int 1)) (productExpr prior bfs)))

/-- `log2(P)`: the `match_weight` item and the left-hand side of the threshold test -/
def weightExpr (prior : Val) (bfs : List Expr) : Expr := Expr.log2 (productExpr prior bfs)

/-- `__splink__df_predict`: match_weight, match_probability, ids, `bf_<c>` per comparison; `thr = some t`: `where log2(P) >= t` -/
def predictStmt (nid : Nat) (inf prior : Val) (thr : Option Val) (cs : List Comparison) : Rel :=
  let bfs := bfCols nid cs
  Rel.project ([weightExpr prior bfs, probExpr inf prior bfs] ++ idCols nid ++ bfs)
    (match thr with
     | none => Rel.table "__splink__df_match_weight_parts"
     | some t => Rel.filter (Expr.cmp Cmp.ge (weightExpr prior bfs) (Expr.lit t)) (Rel.table "__splink__df_match_weight_parts"))

/-- the three statements in the order the pipeline enqueues them -/
def pipeline (nid : Nat) (inf prior : Val) (thr : Option Val) (cs : List Comparison) : List Stmt :=
  [⟨"__splink__df_comparison_vectors", cvStmt nid cs⟩,
   ⟨"__splink__df_match_weight_parts", partsStmt nid cs⟩,
   ⟨"__splink__df_predict", predictStmt nid inf prior thr cs⟩]

end SplinkVerif.ScoreSql
