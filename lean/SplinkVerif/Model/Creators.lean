/-!
# Creators as state machines (C17)

A Splink *creator* (`ComparisonLevelCreator`, `ComparisonCreator`, `BlockingRuleCreator`,
`ColumnExpression`) is an object whose attributes are fixed by its constructor and whose
methods `get_comparison_level(dialect)` / `get_comparison(dialect)` / `get_blocking_rule(dialect)` /
`create_*` compute SQL on demand.  The only way a call can influence a later call is by writing to
state reachable from `self`.  `harness/translate/twrites.py` lists every such write
(`Generated/CreatorWrites.lean`) and classifies its right-hand side; this file gives the three
kinds their meaning.

State = a map from attribute paths to *symbolic* values, so that "the value written is a function of
the dialect only / of the constructor-time configuration / of the previous value" is expressed by the
shape of the value, not by an interpretation.
-/
namespace SplinkVerif.Creators

/-- What the right-hand side of an attribute write reads (classified by T-writes). -/
inductive WriteKind where
  /-- `self.col_expression.sql_dialect = sql_dialect`: derived from the dialect argument only -/
  | dialectSlot
  /-- derived from constructor-time configuration (and possibly the dialect); never reads the attribute written -/
  | configConstant
  /-- `self.col_expression = f(self.col_expression)`, `self.xs.append(..)`, `if self.x is None: self.x = ..` -/
  | selfDependent
deriving DecidableEq, Repr, Inhabited

/-- One row of the generated table: class, method, attribute path, kind. -/
structure Write where
  cls : String
  method : String
  attr : String
  kind : WriteKind
deriving DecidableEq, Repr, Inhabited

abbrev Dialect := String
abbrev Attr := String

/-- Symbolic attribute values. -/
inductive Val where
  /-- the value the constructor gave attribute `a` (the configuration) -/
  | init (a : Attr)
  /-- the dialect object of the current call -/
  | dial (d : Dialect)
  /-- a function (named by method `m`, attribute `a`) of the configuration and the dialect `d` -/
  | const (m : String) (a : Attr) (d : Dialect)
  /-- a function (named by method `m`) of the previous value of the same attribute -/
  | wrap (m : String) (v : Val)
deriving DecidableEq, Repr, Inhabited

/-- `dial` and `const` values do not mention any earlier state. -/
def Val.isPure : Val → Bool
  | .dial _ => true
  | .const _ _ _ => true
  | _ => false

abbrev State := Attr → Val

/-- The state of a freshly constructed object. -/
def fresh : State := fun a => .init a

/-- The value a write stores, given the dialect of the call and the attribute's previous value. -/
def written (d : Dialect) (w : Write) (old : Val) : Val :=
  match w.kind with
  | .dialectSlot => .dial d
  | .configConstant => .const w.method w.attr d
  | .selfDependent => .wrap w.method old

/-- One (possibly guarded) assignment.  `fires d w` says whether the statement runs in a call with
dialect `d`; it may depend on the configuration and the dialect (`if self.input_is_string:`,
`if hasattr(sql_dialect, "array_intersect"):`) but -- for writes not classified `selfDependent` -- not on
mutable state (a guard that reads the attribute written makes the write `selfDependent` in T-writes). -/
def applyWrite (fires : Dialect → Write → Bool) (d : Dialect) (s : State) (w : Write) : State :=
  fun a => if fires d w = true ∧ a = w.attr then written d w (s a) else s a

/-- All writes of one call, in program order. -/
def runWrites (fires : Dialect → Write → Bool) (d : Dialect) (ws : List Write) (s : State) : State :=
  ws.foldl (applyWrite fires d) s

/-- An abstract creator: its rows of the write table and the guard oracle. -/
structure Creator where
  writes : List Write
  fires : Dialect → Write → Bool

/-- State after one call `get_…(d)` / `create_…(d)`. -/
def Creator.call (c : Creator) (s : State) (d : Dialect) : State :=
  runWrites c.fires d c.writes s

/-- Attribute paths the creator ever writes. -/
def Creator.attrs (c : Creator) : List Attr := c.writes.map (·.attr)

/-- `a` is assigned during a call with dialect `d`. -/
def Creator.firedAttr (c : Creator) (d : Dialect) (a : Attr) : Prop :=
  ∃ w ∈ c.writes, w.attr = a ∧ c.fires d w = true

/-- A sequence of calls on one object: final state and the list of outputs.  The output of a call is an
observation `obs d s'` of the state after that call's writes (the SQL, labels and parameters are computed
from the attributes). -/
def Creator.callSeq {β : Type} (c : Creator) (obs : Dialect → State → β) : State → List Dialect → State × List β
  | s, [] => (s, [])
  | s, d :: ds =>
    let s1 := c.call s d
    let r := Creator.callSeq c obs s1 ds
    (r.1, obs d s1 :: r.2)

/-- The output reads only configuration (attributes the creator never writes) and attributes assigned
earlier in the same call (`self.col_expression.sql_dialect = sql_dialect; … col.name_l`). -/
def Local {β : Type} (c : Creator) (obs : Dialect → State → β) : Prop :=
  ∀ d s1 s2, (∀ a, (a ∉ c.attrs ∨ c.firedAttr d a) → s1 a = s2 a) → obs d s1 = obs d s2

/-- No write re-reads what it writes. -/
def Stateless (ws : List Write) : Prop := ∀ w ∈ ws, w.kind ≠ .selfDependent

/-- Every write is a dialect slot. -/
def OnlySlots (ws : List Write) : Prop := ∀ w ∈ ws, w.kind = .dialectSlot

instance (ws : List Write) : Decidable (Stateless ws) := by unfold Stateless; infer_instance
instance (ws : List Write) : Decidable (OnlySlots ws) := by unfold OnlySlots; infer_instance

/-- The rows of a class. -/
def rowsOf (table : List Write) (cls : String) : List Write := table.filter (fun w => w.cls = cls)

/-- Executable summary used by the driver: run `ds` on a fresh object with every guard firing; for each call
say whether the state after it equals the state of a fresh object after the same single call on every
written attribute; then list the attributes whose final value differs from the fresh one. -/
def simulate (ws : List Write) (ds : List Dialect) : List Bool × List Attr :=
  let c : Creator := ⟨ws, fun _ _ => true⟩
  let attrs := c.attrs.eraseDups
  let rec go (s : State) : List Dialect → State × List Bool
    | [] => (s, [])
    | d :: ds =>
      let s1 := c.call s d
      let f1 := c.call fresh d
      let r := go s1 ds
      (r.1, attrs.all (fun a => s1 a == f1 a) :: r.2)
  let r := go fresh ds
  (r.2, attrs.filter (fun a => r.1 a != fresh a))

end SplinkVerif.Creators
