import SplinkVerif.Model.Cache
/-!
# Model of table ownership (C18): who may overwrite or drop which table

Extends the table-cache state machine of `Model/Cache.lean` (catalog `db`, cache dict, uid) with an
owner tag per catalog entry and with the two guarded entry points of the real code:

* `attach U`   — a `DatabaseAPI` connected to a database that already holds the user's tables `U`
* `request`    — `sql_to_splink_dataframe_checking_cache`; on a miss `_setup_for_execute_sql` runs
                 `DROP TABLE IF EXISTS <physical>; CREATE TABLE <physical> AS …`, the result gets
                 `created_by_splink = True` and is stored in the dict under its physical name
* `register`   — `database_api.py:register_multiple_tables` / `register_table(data, name, overwrite)`:
                 `table_exists_in_database(name)`; existing and not `overwrite` → `ValueError` (refused);
                 existing and `overwrite` → `delete_table_from_database(name)`; then `_table_registration`.
                 When an existing table is replaced, every dict entry whose physical name is `name`
                 is removed as well (repair F24; before it the dict was not touched and a stale entry
                 stayed).  The returned SplinkDataFrame has `created_by_splink = False`.
                 Since repair 4551b8fa a replacement also calls `_forget_results_computed_from(name)`: the
                 results computed from the replaced table that are stored under a templated name are deleted
                 from the dict — in this model those are separate `forgetNamed` operations (dict only, no
                 catalog effect) — and the salt of the hashed names is re-drawn (`Cache.resalt`).  No `resalt`
                 operation is needed HERE: ownership does not depend on which salt named a table, so a request's
                 `text` code stands for the pair (SQL text, salt in force) and `base.uid` stays 0 (the
                 correspondence `harness/props/c18.py` codes requests exactly so); the salt matters for what a
                 request RETURNS, which is C07's business (`Cache.reregister`, `C07.reregistration_reflects_new_data`).
* `dropDf`     — `SplinkDataFrame.drop_table_from_database_and_remove_from_cache(force_non_splink_table)`:
                 `_check_drop_table_created_by_splink` raises unless `created_by_splink or force`; then
                 `DROP TABLE IF EXISTS`, then `remove_splinkdataframe_from_cache`
* `setNamed`   — `cache[templated_name] = df` (`compute_df_concat_with_tf`, `compute_tf_table`,
                 `register_table_predict`, `register_term_frequency_lookup`, …)
* `forgetNamed`, `deleteCreated`, `invalidate` — as in `Model/Cache.lean`
                 (`delete_tables_created_by_splink_from_db`, `table_management.invalidate_cache`)

Table names are `Cache.Phys` codes; the contents of a table are a code (`Nat`) standing for schema + rows.
The owner tags are ghost state: the real code keeps no such record (it only has the `created_by_splink`
flag on SplinkDataFrame objects held by the dict).
-/
namespace SplinkVerif.Tables
open SplinkVerif SplinkVerif.Cache

/-- who produced the current incarnation of a catalog entry -/
inductive Owner
  | user              -- existed before Splink was attached
  | splinkDerived     -- produced by a Splink SQL pipeline (`CREATE TABLE … AS`)
  | callerRegistered  -- data handed in through `register_table` & co.
  deriving DecidableEq, Repr

structure State where
  base : Cache.State
  /-- most recent tag first; a name without a tag is the user's -/
  tags : List (Phys × Owner)
  deriving Repr

def ownerOf (p : Phys) (tags : List (Phys × Owner)) : Owner :=
  match tags.find? fun q => q.1 == p with
  | some q => q.2
  | none => .user

/-- Splink attached to a database that already contains `U` -/
def attach (U : List (Phys × Nat)) : State :=
  { base := { Cache.init with db := U }, tags := [] }

/-- result of a guarded call: `refused` = the real code raised `ValueError` and did nothing -/
structure Outcome where
  state : State
  refused : Bool

/-- `register_multiple_tables` for one table -/
def register (s : State) (p : Phys) (v : Nat) (overwrite : Bool) : Outcome :=
  if (dbGet p s.base.db).isSome && !overwrite then ⟨s, true⟩
  else
    -- replacing an existing table also forgets every dict entry that points at it (repair F24)
    let cache := if (dbGet p s.base.db).isSome then s.base.cache.filter (fun q => q.2.phys != p) else s.base.cache
    ⟨{ base := { s.base with db := dbSet p v s.base.db, cache := cache },
       tags := (p, .callerRegistered) :: s.tags }, false⟩

/-- `drop_table_from_database_and_remove_from_cache(force_non_splink_table)` on a SplinkDataFrame with
physical name `p` and flag `created_by_splink = created` -/
def dropDf (s : State) (p : Phys) (created force : Bool) : Outcome :=
  if !created && !force then ⟨s, true⟩
  else ⟨{ s with base := dropTable s.base p }, false⟩

section
variable (hash : Nat → Nat → Nat) (eval : Nat → Nat → Nat)

/-- `sql_to_splink_dataframe_checking_cache`; a miss tags the table it creates as Splink-derived -/
def request (s : State) (r : Req) : State :=
  let res := Cache.request hash eval s.base r
  { base := res.state,
    tags := if res.hit then s.tags else (⟨r.templ, hash r.text s.base.uid⟩, .splinkDerived) :: s.tags }

inductive Op
  | req (r : Req)
  | setNamed (templ : Nat) (e : Entry)
  | register (p : Phys) (v : Nat) (overwrite : Bool)
  | dropDf (p : Phys) (created force : Bool)
  | forgetNamed (templ : Nat)
  | deleteCreated
  | invalidate
  deriving Repr

def applyOp (s : State) : Op → State
  | .req r => request hash eval s r
  | .setNamed t e => { s with base := { s.base with cache := cacheSet (.named t) e s.base.cache } }
  | .register p v ow => (register s p v ow).state
  | .dropDf p c f => (dropDf s p c f).state
  | .forgetNamed t => { s with base := Cache.forgetNamed s.base t }
  | .deleteCreated => { s with base := Cache.deleteCreated s.base }
  | .invalidate => { s with base := Cache.invalidate s.base }

def run (s : State) (ops : List Op) : State := ops.foldl (applyOp hash eval) s
end

/-- is `p` the name of one of the tables `U`? -/
def nameIn (p : Phys) (U : List (Phys × Nat)) : Bool := U.any fun e => e.1 == p

/-- Name discipline of one operation relative to a classifier `derivedName` of table names
("has the form `<templated name>_<9 hex digits of sha256(sql ++ uid)>`") and the user's tables `U`:
* a request writes to a name of derived form;
* a registration uses a name that is not of derived form, and names a user table only without `overwrite`;
* a SplinkDataFrame carrying `created_by_splink = True` has a name of derived form (the flag is only ever
  set by `sql_to_splink_dataframe_checking_cache`), and `force_non_splink_table=True` is not aimed at a
  user table. -/
def wfOp (hash : Nat → Nat → Nat) (derivedName : Phys → Bool) (U : List (Phys × Nat)) : Op → Bool
  | .req r => derivedName ⟨r.templ, hash r.text 0⟩
  | .register p _ ow => !derivedName p && (!ow || !nameIn p U)
  | .dropDf p created force => if created then derivedName p else (!force || !nameIn p U)
  | _ => true

/-- The explicit name-form hypothesis (decidable: a `Bool`): no user table has a name of derived form, and
every operation of the history respects `wfOp`.  Excluded thereby: user tables literally called
`<templated>_<hash>` for a query Splink issues; user tables that the caller overwrites on purpose
(`overwrite=True`, `force_non_splink_table=True`) or whose name Splink itself registers with
`overwrite=True` (`__splink__df_new_records_<uid>`, `__splink__compare_two_records_{left,right}_<uid>`,
`__splink__bridges_<hash>`, `__splink__input_table_<i>`); in debug mode (not modelled) every templated
name itself (`r`, `blocked_with_cols`, `__splink__df_concat`, …).  Registering over a cached Splink table
with `overwrite=True` is also outside `WF` (`!derivedName p`), but is now handled by the code (repair F24:
the stale dict entries are removed, see `C18.overwrite_onto_cached_name_kept`, which holds in every state). -/
def WF (hash : Nat → Nat → Nat) (derivedName : Phys → Bool) (U : List (Phys × Nat)) (ops : List Op) : Bool :=
  U.all (fun e => !derivedName e.1) && ops.all (wfOp hash derivedName U)

end SplinkVerif.Tables
