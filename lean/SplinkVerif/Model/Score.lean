import SplinkVerif.Model.Base
/-!
# Model of Fellegi–Sunter scoring

Mirrors `comparison.py:_case_statement` (`gamma`), `comparison_level.py:
_bayes_factor`, `_bayes_factor_sql`, `_tf_adjustment_sql`, `predict.py:
_combine_prior_and_bfs`, `predict_from_comparison_vectors_sqls` (threshold) and
`misc.py:prob_to_bayes_factor`, `threshold_args_to_match_weight`.

Definitions are polymorphic in the number type through `Num`: the driver runs
them at `Float`, the theorems are proved at `ℝ` (`Lemmas/Score.lean` gives the
instance).  A Bayes factor is `Fac α` — finite, or infinite when `u = 0`
(`'Infinity'` in the SQL).
-/
namespace SplinkVerif.Score

/-- Number operations used by the scoring SQL. -/
class Num (α : Type) where
  zero : α
  one : α
  /-- integer literals and counts -/
  ofNat : Nat → α
  add : α → α → α
  sub : α → α → α
  mul : α → α → α
  div : α → α → α
  /-- `POW(x, y)` -/
  pow : α → α → α
  log2 : α → α
  /-- `x >= y` on non-NULL values -/
  ge : α → α → Bool
  /-- `x > y` on non-NULL values -/
  gt : α → α → Bool
  /-- `x = 0` -/
  isZero : α → Bool

open Num

/-- A Bayes factor: finite, or `'Infinity'`. -/
inductive Fac (α : Type)
  | fin (x : α)
  | inf
  deriving Repr

def Fac.isInf {α} : Fac α → Bool
  | .inf => true
  | .fin _ => false

/-- Product as the engine computes it for positive factors: anything times `Infinity` is `Infinity`. -/
def Fac.mul {α} [Num α] : Fac α → Fac α → Fac α
  | .fin x, .fin y => .fin (Num.mul x y)
  | _, _ => .inf

/-- Term-frequency settings of a level (`tf_adjustment_column` is set). -/
structure TF (α : Type) where
  /-- which `tf_<col>_l/_r` pair of the row is used -/
  col : Nat
  /-- `tf_adjustment_weight` -/
  weight : α
  /-- `tf_minimum_u_value` -/
  minU : α
  /-- `_u_probability_corresponding_to_exact_match`: u of the exact-match level on
  that column (own u when detection is disabled) -/
  uExact : α

structure Level (α : Type) where
  isNull : Bool
  /-- `sql_condition` is `ELSE` -/
  isElse : Bool
  /-- `comparison_vector_value` (−1 for the null level) -/
  cvv : Int
  m : α
  u : α
  tf : Option (TF α)

abbrev Comparison (α : Type) := List (Level α)

variable {α : Type} [Num α]

/-- `CASE WHEN c₀ THEN v₀ WHEN c₁ THEN v₁ … END as gamma_x`: the value of the
first level whose condition is TRUE (an `ELSE` level is always taken when
reached); NULL when no branch fires. -/
def gamma : Comparison α → List B3 → Option Int
  | [], _ => none
  | l :: ls, gs =>
    if l.isElse then some l.cvv
    else match gs with
      | [] => none
      | g :: gs' => if B3.isTrue g then some l.cvv else gamma ls gs'

/-- `ComparisonLevel._bayes_factor`. -/
def levelBF (l : Level α) : Fac α :=
  if l.isNull then .fin one
  else if isZero l.u then .inf
  else .fin (div l.m l.u)

/-- `CASE WHEN gamma = v₀ THEN bf₀ … END as bf_x` (NULL when no level has that value). -/
def bfColumn (c : Comparison α) (g : Option Int) : Option (Fac α) :=
  match g with
  | none => none
  | some v => (c.find? fun l => l.cvv == v).map levelBF

/-- The divisor of the term-frequency adjustment: both CASE shapes. `a` and `b` are
`coalesce(tf_l, tf_r)` and `coalesce(tf_r, tf_l)`. -/
def tfDivisor (minU a b : α) : α :=
  if isZero minU then
    (if ge a b then a else b)
  else
    (if ge a b && gt a minU then a
     else if gt b minU then b
     else minU)

/-- `_tf_adjustment_sql` for the level with value `gamma`. `tfl`/`tfr` look up
the row's `tf_<col>_l` / `tf_<col>_r` (NULL = `none`). -/
def levelTfAdj (l : Level α) (tfl tfr : Nat → Option α) : α :=
  if l.cvv == -1 then one
  else match l.tf with
    | none => one
    | some t =>
      if isZero t.weight then one
      else if l.isElse then one
      else
        match (tfl t.col).orElse (fun _ => tfr t.col), (tfr t.col).orElse (fun _ => tfl t.col) with
        | some a, some b => pow (div t.uExact (tfDivisor t.minU a b)) t.weight
        | _, _ => one

/-- `CASE WHEN gamma = v THEN … END as bf_tf_adj_x`. -/
def tfAdjColumn (c : Comparison α) (g : Option Int) (tfl tfr : Nat → Option α) : Option α :=
  match g with
  | none => none
  | some v => (c.find? fun l => l.cvv == v).map fun l => levelTfAdj l tfl tfr

/-- `Comparison._has_tf_adjustments`: the `bf_tf_adj_x` column exists. -/
def hasTf (c : Comparison α) : Bool := c.any fun l => l.tf.isSome

/-- `prob_to_bayes_factor` for `prob ≠ 1`. -/
def priorOdds (prior : α) : α := div prior (sub one prior)

/-- What the scoring SQL reads of one compared pair: for every comparison the
outcomes of its levels' conditions, and the term-frequency columns. -/
structure Pair (α : Type) where
  guards : List (List B3)
  tfl : Nat → Option α
  tfr : Nat → Option α

/-- `_match_weight_columns_to_multiply` of one comparison evaluated on a pair:
`bf_x`, and `bf_tf_adj_x` when the comparison has a TF-adjusted level. -/
def comparisonTerms (c : Comparison α) (gs : List B3) (tfl tfr : Nat → Option α) :
    List (Option (Fac α)) :=
  let g := gamma c gs
  if hasTf c then [bfColumn c g, (tfAdjColumn c g tfl tfr).map Fac.fin] else [bfColumn c g]

def allTerms (cs : List (Comparison α)) (p : Pair α) : List (Option (Fac α)) :=
  (cs.zip p.guards).flatMap fun (c, gs) => comparisonTerms c gs p.tfl p.tfr

/-- `cast(prior_odds as float8) * t₁ * t₂ * …` (NULL if a term is NULL). -/
def product (prior : α) (ts : List (Option (Fac α))) : Option (Fac α) :=
  ts.foldl (fun acc t => match acc, t with
    | some a, some b => some (Fac.mul a b)
    | _, _ => none) (some (.fin (priorOdds prior)))

/-- `log2(bf)` -/
def weightOf : Fac α → Fac α
  | .fin x => .fin (log2 x)
  | .inf => .inf

/-- `CASE WHEN t₁ = Infinity OR … THEN 1.0 ELSE bf/(1+bf) END` -/
def probOf (ts : List (Option (Fac α))) (bf : Fac α) : α :=
  if ts.any (fun t => match t with | some f => f.isInf | none => false) then one
  else match bf with
    | .fin x => div x (add one x)
    | .inf => one

structure Scored (α : Type) where
  gammas : List (Option Int)
  terms : List (Option (Fac α))
  bf : Option (Fac α)
  weight : Option (Fac α)
  prob : Option α

def score (prior : α) (cs : List (Comparison α)) (p : Pair α) : Scored α :=
  let ts := allTerms cs p
  let bf := product prior ts
  { gammas := (cs.zip p.guards).map fun (c, gs) => gamma c gs
    terms := ts
    bf := bf
    weight := bf.map weightOf
    prob := bf.map (probOf ts) }

/-- `threshold_args_to_match_weight`: a probability threshold `p` becomes the weight
`log2 (p / (1 - p))`; `p = 0` means no threshold. -/
inductive Threshold (α : Type)
  | none
  | weight (w : α)
  | prob (p : α)

def thresholdAsWeight : Threshold α → Option α
  | .none => none
  | .weight w => some w
  | .prob p => if isZero p then none else some (log2 (priorOdds p))

/-- `where log2(bf) >= threshold` -/
def keep (thr : Threshold α) (s : Scored α) : Bool :=
  match thresholdAsWeight thr with
  | none => true
  | some t =>
    match s.weight with
    | some (.fin w) => ge w t
    | some .inf => true
    | none => false

end SplinkVerif.Score
