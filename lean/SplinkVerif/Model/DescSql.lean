import SplinkVerif.Model.Rel
import SplinkVerif.Generated.DescSql
/-!
# The descriptive statements at the level of the SQL they emit

`term_frequencies_for_single_column_sql` and the per-column sub-select of `completeness_data`: the regenerated terms of
`Generated/DescSql.lean`, each a single statement, evaluated on the encoded column.  Second part: the comparison-vector
distribution (one statement, any list of gamma columns), the histogram (two statements) and the unlinkables listing (three
statements), evaluated on any database.
-/
namespace SplinkVerif.DescSql
open SplinkVerif.Rel

/-- A cell of the functional model (`Option Nat`, `none` = NULL) as a SQL value. -/
def encCell : Option Nat → Val
  | none => .null
  | some k => .int (k : Int)

/-- `__splink__df_tf_<col>` for the column `col` of the concatenated input: rows `[value, tf]`. -/
def tfTable (col : List (Option Nat)) : List Row :=
  Gen.DescSql.tfTable.eval (Db.set (fun _ => []) "t_in" (col.map fun v => [encCell v]))

/-- the completeness sub-select for one column: rows `[source_dataset, 'v', total_null_rows, total_rows_inc_nulls, completeness]`. -/
def completenessCol (sd : List Nat) (col : List (Option Nat)) : List Row :=
  Gen.DescSql.completenessCol.eval
    (Db.set (fun _ => []) "cws_in" ((sd.zip col).map fun p => [Val.int (p.1 : Int), encCell p.2]))

/-! ## Comparison-vector distribution, match-weight histogram, unlinkables

`comparison_vector_distribution_sql` is one statement over `__splink__df_predict` (`cv_in`); `histogram_data` enqueues the two statements
of `_hist_sql` over `__splink__df_predict` (`pred_in`) and returns the last; `unlinkables_data` enqueues three statements over the
self-link table (`self_in`) and returns the last. -/

/-- `__splink__df_comparison_vector_distribution` for the gamma columns `gs` (expressions over a row of `cv_in`), on any database. -/
def cvd (gs : List Expr) (db : Db) : List Row := (Gen.DescSql.cvd gs).eval db

/-- The same on a table that holds exactly the `n` gamma columns of the scored pairs (the functional model's input). -/
def cvdOf (n : Nat) (pairs : List (List Int)) : List Row :=
  cvd (Gen.DescSql.keyCols n) (Db.set (fun _ => []) "cv_in" (pairs.map fun p => p.map Val.int))

/-- `histogram_data` after `_bins`: `__splink__df_hist` (bin low, width, count, bin high); `bin` is the binning expression, `bw` the width. -/
def histogram (bin : Expr) (bw : Val) (db : Db) : List Row :=
  runStmts db (Gen.DescSql.histStmts bin bw) "__splink__df_hist"

/-- `unlinkables_data`: `__splink__df_unlinkables_proportions_cumulative` (match_weight, match_probability, prop, cum_prop); `rw`, `rp` are
the two rounding expressions over a row of `self_in`. -/
def unlinkables (rw rp : Expr) (db : Db) : List Row :=
  runStmts db (Gen.DescSql.unlStmts rw rp) "__splink__df_unlinkables_proportions_cumulative"

end SplinkVerif.DescSql
