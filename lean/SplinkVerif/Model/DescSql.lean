import SplinkVerif.Model.Rel
import SplinkVerif.Generated.DescSql
/-!
# Two descriptive statements at the level of the SQL they emit

`term_frequencies_for_single_column_sql` and the per-column sub-select of `completeness_data`: the regenerated terms of
`Generated/DescSql.lean`, each a single statement, evaluated on the encoded column.
-/
namespace SplinkVerif.DescSql
open SplinkVerif.Rel

/-- A cell of the functional model (`Option Nat`, `none` = NULL) as a SQL value. -/
def encCell : Option Nat → Val
  | none => .null
  | some k => .int (k : Int)

/-- `__splink__df_tf_<col>` for the column `col` of the concatenated input: rows `[value, tf]`. -/
def tfTable (col : List (Option Nat)) : List Row :=
  Gen.DescSql.tfTable.eval (Db.set (fun _ => []) "t_in" (col.map fun v => [encCell v]))

/-- the completeness sub-select for one column: rows `[source_dataset, 'v', total_null_rows, total_rows_inc_nulls, completeness]`. -/
def completenessCol (sd : List Nat) (col : List (Option Nat)) : List Row :=
  Gen.DescSql.completenessCol.eval
    (Db.set (fun _ => []) "cws_in" ((sd.zip col).map fun p => [Val.int (p.1 : Int), encCell p.2]))

end SplinkVerif.DescSql
