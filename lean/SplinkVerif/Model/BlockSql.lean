import SplinkVerif.Model.Rel
import SplinkVerif.Model.Blocking
import SplinkVerif.Generated.BlockSql
/-!
# `block_using_rules_sqls` at the level of the SQL it emits

The per-rule `SELECT` statements are **not** written here: they are the terms of `Generated/BlockSql.lean`, regenerated
by the T-sql translator on every run from what the real code emits (captured with marker rules, so that the rule and
the preceding rules are *parameters*).  Hand-written is only the Python control flow of
`splink/internals/blocking.py: block_using_rules_sqls` and `settings.py: Settings._brs_as_objs`:

* `for br in blocking_rules` — one statement per rule, in list order, for a list of ANY length;
* `match_key = len(self.preceding_rules)`, rendered as the string literal `'{match_key}'`;
* `_brs_as_objs`: the preceding rules of rule `i` are the rules `0..i-1`;
* `exclude_pairs_generated_by_all_preceding_rules_sql`: nothing for the first rule, otherwise
  `AND NOT (" OR ".join(<exclusion term of each preceding rule>))` (SQL's `OR` associates to the left);
* `if not blocking_rules: blocking_rules = [BlockingRule("1=1")]`;
* `" UNION ALL ".join(br_sqls)`.

Table layout (a representation choice; SQL resolves columns by name): the input tables have `w` columns, the identity
columns first — `unique_id` for `dedupe_only`, `source_dataset, unique_id` otherwise —, then the data columns.  A rule is
an `Expr` over the joined row (`l`'s `w` columns, then `r`'s columns).
-/
namespace SplinkVerif.BlockSql
open SplinkVerif.Rel

abbrev LinkType := Blocking.LinkType

/-- The regenerated per-rule statement of a rule without preceding rules. -/
def first : LinkType → Nat → Val → Expr → Rel
  | .dedupeOnly => Gen.BlockSql.dedupeOnlyFirst
  | .linkOnly => Gen.BlockSql.linkOnlyFirst
  | .linkAndDedupe => Gen.BlockSql.linkAndDedupeFirst
  | .twoDatasetLinkOnly => Gen.BlockSql.twoDatasetLinkOnlyFirst

/-- The regenerated per-rule statement of a rule with preceding rules (`excl` = the OR of their exclusion terms). -/
def later : LinkType → Nat → Val → Expr → Expr → Rel
  | .dedupeOnly => Gen.BlockSql.dedupeOnlyLater
  | .linkOnly => Gen.BlockSql.linkOnlyLater
  | .linkAndDedupe => Gen.BlockSql.linkAndDedupeLater
  | .twoDatasetLinkOnly => Gen.BlockSql.twoDatasetLinkOnlyLater

/-- The tables joined as `l` and as `r`. -/
def tables : LinkType → String × String
  | .dedupeOnly => Gen.BlockSql.dedupeOnlyTables
  | .linkOnly => Gen.BlockSql.linkOnlyTables
  | .linkAndDedupe => Gen.BlockSql.linkAndDedupeTables
  | .twoDatasetLinkOnly => Gen.BlockSql.twoDatasetLinkOnlyTables

/-- `'{self.match_key}'`. -/
def mkVal (k : Nat) : Val := .str (toString k)

/-- `" OR ".join(or_clauses)` over the preceding rules; `none` when there are none (the method returns `""`). -/
def exclAll : List Expr → Option Expr
  | [] => none
  | p :: ps => some (ps.foldl (fun acc q => Expr.or acc (Gen.BlockSql.exclOne q)) (Gen.BlockSql.exclOne p))

/-- `BlockingRule.create_blocked_pairs_sql` for a rule whose preceding rules are `pre`. -/
def stmt (lt : LinkType) (w : Nat) (pre : List Expr) (rule : Expr) : Rel :=
  match exclAll pre with
  | none => first lt w (mkVal pre.length) rule
  | some e => later lt w (mkVal pre.length) rule e

/-- `for br in blocking_rules`: rules `pre` already emitted, `rules` remaining. -/
def stmtsFrom (lt : LinkType) (w : Nat) : List Expr → List Expr → List Rel
  | _, [] => []
  | pre, r :: rest => stmt lt w pre r :: stmtsFrom lt w (pre ++ [r]) rest

/-- `if not blocking_rules: blocking_rules = [BlockingRule("1=1")]`. -/
def rulesOrDefault (rules : List Expr) : List Expr :=
  if rules.isEmpty then [Gen.BlockSql.noRulesRule] else rules

/-- `" UNION ALL ".join(br_sqls)` (left-nested, as SQL parses it). -/
def unionAll : List Rel → Option Rel
  | [] => none
  | s :: ss => some (ss.foldl (Rel.union true) s)

/-- The statement `__splink__blocked_id_pairs`. -/
def blockRel (lt : LinkType) (w : Nat) (rules : List Expr) : Option Rel :=
  unionAll (stmtsFrom lt w [] (rulesOrDefault rules))

/-- Its rows `(match_key, join_key_l, join_key_r)` on a database. -/
def block (lt : LinkType) (w : Nat) (db : Db) (rules : List Expr) : List Row :=
  match blockRel lt w rules with
  | none => []
  | some r => r.eval db

/-! ## Vocabulary of the specification (what the statements are *supposed* to compute) -/

/-- Number of identity columns at the front of a row. -/
def idWidth : LinkType → Nat
  | .dedupeOnly => 1
  | _ => 2

/-- The identity Splink gives a record: `unique_id`, or `source_dataset || '-__-' || unique_id`. -/
def rowId : LinkType → Row → Val
  | .dedupeOnly, r => r.getD 0 .null
  | _, r => Val.concat (Val.concat (r.getD 0 .null) (.str "-__-")) (r.getD 1 .null)

/-- The ordered pair of records `(ra, rb)` is admissible under the link type. -/
def admissible (lt : LinkType) (ra rb : Row) : Bool :=
  match lt with
  | .dedupeOnly | .linkAndDedupe => Cmp.lt.eval (rowId lt ra) (rowId lt rb) == .bool true
  | .linkOnly =>
    Cmp.lt.eval (rowId lt ra) (rowId lt rb) == .bool true &&
      Cmp.ne.eval (ra.getD 0 .null) (rb.getD 0 .null) == .bool true
  | .twoDatasetLinkOnly => true

/-- A value of SQL's three-valued logic. -/
def isB3 : Val → Bool
  | .null => true
  | .bool _ => true
  | _ => false

def emptyDb : Db := fun _ => []

/-- The database the statements see: left and right input table (the same table for the self-joining link types:
the second binding wins, and both names coincide). -/
def inputDb (lt : LinkType) (left right : List Row) : Db :=
  Db.set (Db.set emptyDb (tables lt).1 left) (tables lt).2 right

end SplinkVerif.BlockSql
