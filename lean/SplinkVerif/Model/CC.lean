import SplinkVerif.Model.Base
/-!
# Model of `splink/internals/connected_components.py:solve_connected_components`

One definition per SQL statement, in the order the code issues them.  Node ids
are `0..n-1` (the harness maps the engine's ids to their rank; the algorithm
uses ids only through `=`, `<>` and `min`).  Tables that hold one row per node
are functions `Nat → _` tabulated with `Tab.build` (extensionally the function
itself, operationally an array).

* `edgesWithSelfLoops`  — `__splink__df_edges_with_self_loops`
* `neighboursOf`        — `__splink__df_neighbours` (both LEFT JOIN branches, UNION)
* `initialRep`          — `representatives`
* `firstIter`           — `neighbours_first_iter` + `__splink__df_representatives`
* `nonStable`           — `non_stable_representatives`
* `step`                — one pass of the `while` body (stable table, thinning of
                          representatives and neighbours, `r`, `needs_updating`)
* `loop`/`run`          — the `while needs_updating_count > 0` loop, forced first pass
* `output`              — the final `UNION ALL` of stable tables and the last table
-/
namespace SplinkVerif.CC

/-- An edge row that survived `where match_probability >= threshold`. -/
abbrev Edge := Nat × Nat

/-- `__splink__df_edges_with_self_loops`: edges `UNION` `(v,v)` for every node. -/
def edgesWithSelfLoops (n : Nat) (edges : List Edge) : List Edge :=
  (edges ++ (List.range n).map fun v => (v, v)).eraseDups

/-- `__splink__df_neighbours` restricted to `node_id = i`: every `node_id_r` of a
row with `node_id_l = i` `UNION` every `node_id_l` of a row with `node_id_r = i`.
(The self loop guarantees both LEFT JOINs find a row, so the `coalesce` and the
NULL of the first branch never fire for a node of the nodes table.) -/
def neighboursOf (es : List Edge) (i : Nat) : List Nat :=
  ((es.filter fun e => e.1 == i).map (·.2) ++ (es.filter fun e => e.2 == i).map (·.1)).eraseDups

/-- State of the loop.  `rep`,`upd` = columns `representative`,`needs_updating`
of the current representatives table; `live i` = node `i` still has a row in
it; `out` = rows of the `__splink__representatives_stable_k` tables so far. -/
structure St where
  rep  : Nat → Nat
  upd  : Nat → Bool
  live : Nat → Bool
  out  : List (Nat × Nat)

/-- `representatives`: `min(neighbour) group by node_id`. -/
def initialRep (nb : Nat → List Nat) (i : Nat) : Nat := minOver (nb i) i

/-- `neighbours_first_iter` joined back to `representatives`. -/
def firstIter (n : Nat) (nb : Nat → List Nat) : St :=
  let rep0 := Tab.build n (initialRep nb)
  let rep1 := Tab.build n fun i => minOver ((nb i).map rep0.get) (rep0.get i)
  let upd := Tab.build n fun i => rep1.get i != rep0.get i
  { rep := rep1.get
    upd := upd.get
    live := fun _ => true
    out := [] }

/-- Row `i` of the three-way join in `non_stable_representatives` survives the
`WHERE r.representative != r2.representative`. -/
def hasForeign (nb : Nat → List Nat) (s : St) (i : Nat) : Bool :=
  (nb i).any fun j => s.live j && s.rep i != s.rep j

/-- `non_stable_representatives` as a membership test on representative values. -/
def nonStable (n : Nat) (nb : Nat → List Nat) (s : St) (g : Nat) : Bool :=
  (List.range n).any fun i => s.live i && s.rep i == g && hasForeign nb s i

/-- One pass of the loop body. -/
def step (n : Nat) (nb : Nat → List Nat) (s : St) : St :=
  let hf := Tab.build n (hasForeign nb s)
  let ns := Tab.build n fun g => (List.range n).any fun i => s.live i && s.rep i == g && hf.get i
  -- `__splink__representatives_unstable_k`
  let live' := Tab.build n fun i => s.live i && ns.get (s.rep i)
  -- `__splink__representatives_stable_k`
  let stableRows :=
    ((List.range n).filter fun i => s.live i && !live'.get i).map fun i => (i, s.rep i)
  -- `r`: neighbours (thinned to live node_ids) joined to thinned representatives
  -- that need updating, UNION ALL the thinned representatives themselves, min per node
  let r := Tab.build n fun i =>
    if live'.get i then
      minOver (((nb i).filter fun j => live'.get j && s.upd j).map s.rep) (s.rep i)
    else s.rep i
  let upd' := Tab.build n fun i => live'.get i && r.get i != s.rep i
  { rep := r.get
    upd := upd'.get
    live := live'.get
    out := s.out ++ stableRows }

/-- `count_of_nodes_needing_updating`. -/
def updCount (n : Nat) (s : St) : Nat :=
  ((List.range n).filter fun i => s.live i && s.upd i).length

/-- The `while` loop after its (forced) first pass: `s` is the state after a
pass; continue while some row needs updating. -/
def loop (n : Nat) (nb : Nat → List Nat) : Nat → St → St
  | 0, s => s
  | fuel + 1, s => if updCount n s > 0 then loop n nb fuel (step n nb s) else s

/-- Per-iteration `needs_updating` counts, as logged by the code. -/
def loopTrace (n : Nat) (nb : Nat → List Nat) : Nat → St → List Nat
  | 0, _ => []
  | fuel + 1, s =>
    if updCount n s > 0 then
      let s' := step n nb s
      updCount n s' :: loopTrace n nb fuel s'
    else []

/-- Fuel that provably suffices (`run_terminates`): the sum of representatives
is at most `n*n` and strictly decreases on every pass that changes something. -/
def fuel (n : Nat) : Nat := n * n + 1

/-- `__splink__df_neighbours` as a function of the node. -/
def neighbours (n : Nat) (edges : List Edge) : Tab (List Nat) :=
  let es := edgesWithSelfLoops n edges
  Tab.build n (neighboursOf es)

/-- State when the `while` loop exits. -/
def run (n : Nat) (edges : List Edge) : St :=
  let nb := neighbours n edges
  loop n nb.get (fuel n) (step n nb.get (firstIter n nb.get))

/-- Logged counts, iteration 1 first. -/
def trace (n : Nat) (edges : List Edge) : List Nat :=
  let nb := neighbours n edges
  let s1 := step n nb.get (firstIter n nb.get)
  updCount n s1 :: loopTrace n nb.get (fuel n) s1

/-- `__splink__clustering_output_final`: stable tables `UNION ALL` last table. -/
def output (n : Nat) (s : St) : List (Nat × Nat) :=
  s.out ++ ((List.range n).filter s.live).map fun i => (i, s.rep i)

def cluster (n : Nat) (edges : List Edge) : List (Nat × Nat) :=
  output n (run n edges)

/-- `where match_probability >= threshold` (no clause when the threshold is `None`). -/
def thresholdEdges {α : Type} (ge : α → α → Bool) (thr : Option α)
    (edges : List (Nat × Nat × α)) : List Edge :=
  (edges.filter fun e => match thr with | none => true | some t => ge e.2.2 t).map
    fun e => (e.1, e.2.1)

/-- `threshold_args_to_match_prob` for a weight: `bayes_factor_to_prob (2 ** w)`. -/
def weightToProb (w : Float) : Float :=
  let bf := Float.pow 2.0 w
  bf / (1.0 + bf)

end SplinkVerif.CC
