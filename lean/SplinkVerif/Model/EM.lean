import SplinkVerif.Model.Score
/-!
# Model of expectation–maximisation training

Mirrors `expectation_maximisation.py` — `count_agreement_patterns_sql` (rows carry an
`agreement_pattern_count`), the E-step (`predict_from_agreement_pattern_counts_sqls` /
`predict_from_comparison_vectors_sqls(training_mode=True)` = `Score.score`),
`compute_new_parameters_sql` (`mCount`, `uCount`, `lambdaNew`),
`compute_proportions_for_new_parameters_sql` (`denomM`, `denomU`, the window
normalisation after dropping γ = −1), `populate_m_u_from_lookup` /
`maximisation_step` (`step`: session- and level-level fix flags, the
`LEVEL_NOT_OBSERVED` placeholder whose numeric value is 1e-6), the convergence
test (`maxChange`, `run`); `em_training_session.py` — the blocking-adjusted
starting prior (`startPrior`) and `settings.py:
_get_comparison_levels_corresponding_to_training_blocking_rule`
(`levelsToReverse`); `linker.py:_populate_m_u_from_trained_values` with Python's
`statistics.median` (`median`).
-/
namespace SplinkVerif.EM
open SplinkVerif SplinkVerif.Score

variable {α : Type} [Num α]

/-- Trainable state of one level next to its `Score.Level`: was a value observed
(`false` = `LEVEL_NOT_OBSERVED`, numeric value 1e-6), and the level-level fix flags. -/
structure LevelState where
  mObserved : Bool := true
  uObserved : Bool := true
  fixM : Bool := false
  fixU : Bool := false
  deriving Repr, DecidableEq

/-- `training_fixed_probabilities` of the session. -/
structure Session where
  fixM : Bool
  fixU : Bool
  fixLambda : Bool
  deriving Repr, DecidableEq

/-- `CoreModelSettings` as EM sees it. -/
structure Params (α : Type) where
  prior : α
  comps : List (Comparison α)
  states : List (List LevelState)

/-- A comparison-vector row with its `agreement_pattern_count` (1 in row-wise mode). -/
structure Row (α : Type) where
  pair : Pair α
  count : Nat

/-- numeric value of `LEVEL_NOT_OBSERVED` -/
def notObservedValue : α := Num.div Num.one (Num.ofNat 1000000)

/-- E-step: `match_probability` of a row under the current parameters. -/
def eProb (θ : Params α) (r : Row α) : α :=
  match (score θ.prior θ.comps r.pair).prob with
  | some p => p
  | none => Num.zero

/-- `gamma_c` of a row. -/
def gammaAt (θ : Params α) (r : Row α) (ci : Nat) : Option Int :=
  match θ.comps[ci]?, r.pair.guards[ci]? with
  | some c, some gs => gamma c gs
  | _, _ => none

def sumBy (rows : List (Row α)) (f : Row α → α) : α :=
  rows.foldl (fun acc r => Num.add acc (f r)) Num.zero

/-- `sum(match_probability * agreement_pattern_count) … group by gamma_c` at value `v`. -/
def mCount (θ : Params α) (rows : List (Row α)) (ci : Nat) (v : Int) : α :=
  sumBy (rows.filter fun r => gammaAt θ r ci == some v) fun r =>
    Num.mul (eProb θ r) (Num.ofNat r.count)

def uCount (θ : Params α) (rows : List (Row α)) (ci : Nat) (v : Int) : α :=
  sumBy (rows.filter fun r => gammaAt θ r ci == some v) fun r =>
    Num.mul (Num.sub Num.one (eProb θ r)) (Num.ofNat r.count)

/-- `sum(p * count) / sum(count)` -/
def lambdaNew (θ : Params α) (rows : List (Row α)) : α :=
  Num.div (sumBy rows fun r => Num.mul (eProb θ r) (Num.ofNat r.count))
          (sumBy rows fun r => Num.ofNat r.count)

/-- The groups of `group by gamma_c` that survive `where comparison_vector_value != -1`. -/
def observedValues (θ : Params α) (rows : List (Row α)) (ci : Nat) : List Int :=
  ((rows.filterMap fun r => gammaAt θ r ci).filter fun v => v != -1).eraseDups

/-- `sum(m_count) over (partition by output_column_name)` after dropping γ = −1. -/
def denomM (θ : Params α) (rows : List (Row α)) (ci : Nat) : α :=
  (observedValues θ rows ci).foldl (fun acc v => Num.add acc (mCount θ rows ci v)) Num.zero

def denomU (θ : Params α) (rows : List (Row α)) (ci : Nat) : α :=
  (observedValues θ rows ci).foldl (fun acc v => Num.add acc (uCount θ rows ci v)) Num.zero

/-- New `m` of a level: the proportion when its value was observed, else `none` (`KeyError` ⇒ placeholder). -/
def newM (θ : Params α) (rows : List (Row α)) (ci : Nat) (v : Int) : Option α :=
  if (observedValues θ rows ci).contains v then some (Num.div (mCount θ rows ci v) (denomM θ rows ci))
  else none

def newU (θ : Params α) (rows : List (Row α)) (ci : Nat) (v : Int) : Option α :=
  if (observedValues θ rows ci).contains v then some (Num.div (uCount θ rows ci v) (denomU θ rows ci))
  else none

/-- `populate_m_u_from_lookup` for one level. -/
def updateLevel (sess : Session) (θ : Params α) (rows : List (Row α)) (ci : Nat)
    (l : Level α) (st : LevelState) : Level α × LevelState :=
  if l.isNull then (l, st) else
  let (m', mo) :=
    if st.fixM || sess.fixM then (l.m, st.mObserved)
    else match newM θ rows ci l.cvv with
      | some x => (x, true)
      | none => (notObservedValue, false)
  let (u', uo) :=
    if st.fixU || sess.fixU then (l.u, st.uObserved)
    else match newU θ rows ci l.cvv with
      | some x => (x, true)
      | none => (notObservedValue, false)
  ({ l with m := m', u := u' }, { st with mObserved := mo, uObserved := uo })

def zipWith3Idx {β γ δ : Type} (f : Nat → β → γ → δ) (xs : List β) (ys : List γ) : List δ :=
  ((List.range xs.length).zip (xs.zip ys)).map fun p => f p.1 p.2.1 p.2.2

/-- One EM iteration (`maximisation_step` after the E-step). -/
def step (sess : Session) (θ : Params α) (rows : List (Row α)) : Params α :=
  let upd := zipWith3Idx (fun ci c sts =>
      (c.zip sts).map fun p => updateLevel sess θ rows ci p.1 p.2) θ.comps θ.states
  { prior := if sess.fixLambda then θ.prior else lambdaNew θ rows
    comps := upd.map fun c => c.map (·.1)
    states := upd.map fun c => c.map (·.2) }

/-- `|x|` via `ge`. -/
def absDiff (a b : α) : α := if Num.ge a b then Num.sub a b else Num.sub b a
def maxOf (a b : α) : α := if Num.ge a b then a else b

/-- `_max_change_in_parameters_comparison_levels`: largest absolute change over the
non-null levels' `m`, `u` and the prior. -/
def maxChange (old new : Params α) : α :=
  let lv := (old.comps.zip new.comps).flatMap fun p =>
    ((p.1.zip p.2).filter fun q => !q.1.isNull).map fun q =>
      maxOf (absDiff q.2.m q.1.m) (absDiff q.2.u q.1.u)
  lv.foldl maxOf (absDiff new.prior old.prior)

/-- The iteration loop: history of parameters, initial first; stop after the
iteration whose largest change is below `conv`, or after `maxIter`. -/
def run (sess : Session) (rows : List (Row α)) (conv : α) : Nat → Params α → List (Params α)
  | 0, θ => [θ]
  | n + 1, θ =>
    let θ' := step sess θ rows
    if Num.gt conv (maxChange θ θ') then [θ, θ'] else θ :: run sess rows conv n θ'

/-- `_blocking_adjusted_probability_two_random_records_match`:
`bayes_factor_to_prob (prob_to_bayes_factor prior · Π BF(level))`. -/
def startPrior (prior : α) (bfs : List α) : α :=
  let bf := bfs.foldl (fun acc b => Num.mul b acc) (priorOdds prior)
  Num.div bf (Num.add Num.one bf)

/-- `_get_comparison_levels_corresponding_to_training_blocking_rule`: exact-match levels
(each given by the list of its column names, in comparison order) sorted by
decreasing number of columns (stable), greedily taken when all their columns are
still uncovered columns of the rule. Returns indices into `levels`. -/
def insertByLenDesc {β : Type} (x : Nat × List β) : List (Nat × List β) → List (Nat × List β)
  | [] => [x]
  | y :: ys => if x.2.length > y.2.length then x :: y :: ys else y :: insertByLenDesc x ys

/-- Python's stable `list.sort(key = -len(cols))`. -/
def sortByLenDesc {β : Type} (xs : List (Nat × List β)) : List (Nat × List β) :=
  xs.foldl (fun acc x => insertByLenDesc x acc) []

def levelsToReverseAux {β : Type} [BEq β] : List (Nat × List β) → List β → List Nat
  | [], _ => []
  | (i, cols) :: rest, remaining =>
    if cols.all fun c => remaining.contains c then
      i :: levelsToReverseAux rest (remaining.filter fun c => !cols.contains c)
    else levelsToReverseAux rest remaining

def levelsToReverse {β : Type} [BEq β] (levels : List (List β)) (ruleCols : List β) : List Nat :=
  levelsToReverseAux (sortByLenDesc ((List.range levels.length).zip levels)) ruleCols.eraseDups

/-- Python's `statistics.median` of a non-empty list (sorted by `ge`). -/
def insertAsc (x : α) : List α → List α
  | [] => [x]
  | y :: ys => if Num.ge y x then x :: y :: ys else y :: insertAsc x ys

def median (xs : List α) : Option α :=
  let s := xs.foldr insertAsc []
  let n := s.length
  if n == 0 then none
  else if n % 2 == 1 then s[n / 2]?
  else match s[n / 2 - 1]?, s[n / 2]? with
    | some a, some b => some (Num.div (Num.add a b) (Num.ofNat 2))
    | _, _ => none

end SplinkVerif.EM
