/-!
# Number interface for the *translated* arithmetic (`Generated/Arith.lean`)

`harness/translate/tarith.py` turns the pure-Python arithmetic helpers of Splink
(`misc.py`, `estimate_u.py`) into Lean definitions over this interface on every
run.  The driver instantiates it at `Float` (translation validation against the
Python functions), the theorems at `ℚ`/`ℝ`.
-/
namespace SplinkVerif

class ANum (α : Type) where
  ofNat : Nat → α
  add : α → α → α
  sub : α → α → α
  mul : α → α → α
  div : α → α → α
  /-- `x ** 0.5` -/
  sqrt : α → α
  /-- `2 ** x` -/
  pow2 : α → α
  /-- `math.log2` -/
  log2 : α → α
  /-- `math.inf` -/
  inf : α
  le : α → α → Bool
  lt : α → α → Bool
  eq : α → α → Bool

namespace ANum
variable {α : Type} [ANum α]
/-- `sum(xs)` -/
def sum (xs : List α) : α := xs.foldl ANum.add (ANum.ofNat 0)
/-- `sorted(xs)` (insertion sort by `le`) -/
def insert (x : α) : List α → List α
  | [] => [x]
  | y :: ys => if ANum.le x y then x :: y :: ys else y :: insert x ys
def sorted (xs : List α) : List α := xs.foldr insert []
end ANum
end SplinkVerif
