/-!
# Dialect table — record types for `Generated/Dialects.lean` (C06, C16)

`harness/translate/tdialect.py` imports the dialect classes of
`splink/internals/dialects.py`, reads every `*_function_name` property, the
`infinity_expression`, `array_first_index`, the date-parsing / regex capabilities, asks
the level creators of `comparison_level_library.py` which comparator they put after the
function call, and — for every dialect that can EXECUTE in this sandbox — evaluates each
emitted function on the real backend (through `DatabaseAPI.sql_pipeline_to_splink_dataframe`,
i.e. the path Splink's own SQL takes, including the Spark transpilation) and classifies
what it saw.  The result is one `DialectEntry` per dialect in `Gen.dialectTable`.

This file only fixes the vocabulary; it contains no fact about any dialect except
`expectedOrientation`, which states what the comparison levels assume
(`comparison_level_library.py`: `LevenshteinLevel`/`DamerauLevenshteinLevel` emit
`fn(l, r) <= t`, `JaroLevel`/`JaroWinklerLevel`/`JaccardLevel`/`CosineSimilarityLevel`
emit `fn(l, r) >= t`).
-/
namespace SplinkVerif

/-- The subclasses of `SplinkDialect` in `dialects.py`. -/
inductive Dialect
  | duckdb | spark | sqlite | postgres | athena
  deriving DecidableEq, Repr

/-- The similarity / distance kinds for which `SplinkDialect` has a `*_function_name` property. -/
inductive Kind
  | levenshtein | damerauLevenshtein | jaro | jaroWinkler | jaccard | cosine
  deriving DecidableEq, Repr

/-- `similarity`: identical inputs score 1 and more than dissimilar ones;
`distance`: identical inputs score 0 and less than dissimilar ones. -/
inductive Orientation
  | similarity | distance
  deriving DecidableEq, Repr

/-- The comparator a level creator writes between the function call and its threshold. -/
inductive Cmp
  | ge | le
  deriving DecidableEq, Repr

/-- What the real backend did with `fn(x, x)`, `fn(x, y)` and `fn(NULL, y)`. -/
inductive Behaviour
  /-- evaluated; `fn(x,x)` and `fn(x,y)` fit one of the two patterns; `nullOnNull` ⇔ `fn(NULL,y)` and `fn(x,NULL)` are NULL -/
  | classified (o : Orientation) (nullOnNull : Bool)
  /-- the dialect emits this name but the backend raised when evaluating it (e.g. "no such function") -/
  | notRunnable
  /-- evaluated, but the values fit neither pattern -/
  | unclassifiable
  deriving DecidableEq, Repr

/-- One `*_function_name` property of one dialect. -/
structure FnEntry where
  kind : Kind
  /-- the SQL function name; `none` = the property raises `NotImplementedError` -/
  name : Option String
  /-- `none` = this dialect was not executed in the run that generated the table -/
  behaviour : Option Behaviour
  deriving DecidableEq, Repr

/-- Behaviour of the two infinity spellings on a real backend.
`ComparisonLevel._bayes_factor_sql` hard-codes `cast('Infinity' as float8)` for a level with u = 0;
`predict._combine_prior_and_bfs` compares each Bayes-factor term with the dialect's `infinity_expression`. -/
structure InfinityProbe where
  /-- `SELECT cast('Infinity' as float8)` is the IEEE +∞ -/
  bfLiteralIsPosInf : Bool
  /-- `SELECT cast('Infinity' as float8) = <infinity_expression>` is TRUE -/
  exprDetectsBfLiteral : Bool
  /-- `SELECT log2(<infinity_expression>)` — the match weight `predict` emits when the prior is 1 — is +∞ -/
  exprLog2IsPosInf : Bool
  deriving DecidableEq, Repr

/-- All three uses of infinity work on this backend. -/
def InfinityProbe.ok (p : InfinityProbe) : Bool :=
  p.bfLiteralIsPosInf && p.exprDetectsBfLiteral && p.exprLog2IsPosInf

structure DialectEntry where
  dialect : Dialect
  /-- `sql_dialect_str` / `sqlglot_dialect` -/
  sqlName : String
  sqlglotName : String
  /-- the backend was really run to fill `behaviour`, `infinity`, `firstIndexSelectsFirst` -/
  executed : Bool
  fns : List FnEntry
  infinityExpression : String
  infinity : Option InfinityProbe
  /-- `array_first_index`; `none` = raises -/
  arrayFirstIndex : Option Nat
  /-- `access_extreme_array_element(arr, 'first')` evaluated on a 3-element array literal returned its first element -/
  firstIndexSelectsFirst : Option Bool
  /-- capabilities: the method returns SQL (`true`) or raises (`false`) -/
  parsesDates : Bool
  parsesTimestamps : Bool
  extractsRegex : Bool
  deriving Repr

/-- The orientation the comparison levels assume for each kind. -/
def expectedOrientation : Kind → Orientation
  | .levenshtein | .damerauLevenshtein => .distance
  | .jaro | .jaroWinkler | .jaccard | .cosine => .similarity

/-- A `>= t` level is right for a similarity, a `<= t` level for a distance. -/
def Orientation.comparator : Orientation → Cmp
  | .similarity => .ge
  | .distance => .le

namespace DialectEntry

/-- The entry of kind `k` (each kind occurs once per dialect in the generated table). -/
def fn (d : DialectEntry) (k : Kind) : Option FnEntry := d.fns.find? (·.kind == k)

/-- `some (orientation, nullOnNull)` iff this dialect emits a name for `k`, was executed, and the backend evaluated it to a classifiable function. -/
def classOf (d : DialectEntry) (k : Kind) : Option (Orientation × Bool) :=
  match d.fn k with
  | some { name := some _, behaviour := some (.classified o n), .. } => some (o, n)
  | _ => none

/-- The dialect emits a name for `k`. -/
def supports (d : DialectEntry) (k : Kind) : Bool :=
  match d.fn k with
  | some { name := some _, .. } => true
  | _ => false

end DialectEntry

def allKinds : List Kind := [.levenshtein, .damerauLevenshtein, .jaro, .jaroWinkler, .jaccard, .cosine]
def allDialects : List Dialect := [.duckdb, .spark, .sqlite, .postgres, .athena]

end SplinkVerif
