import SplinkVerif.Model.Base
/-!
# Model of failure atomicity of the public linker operations

A public operation is a small program over the linker's *observable* state (`Obs`: the model
parameters, the blocking rules used for prediction, the retain flags, the link type) whose steps are
backend statements (`sql`, each of which may fail), writes to the observable state, sequencing and
`try … finally`.  `exec p s fuel` runs `p` with a fault injected at the `fuel`-th statement
(`none` = no fault).  The operations of `linker_components/training.py` / `inference.py` /
`estimate_u.py` / `m_training.py` / `em_training_session.py` have one of two shapes:

* `copyThenCommit n commit` — all `n` statements run against a *copy* (`deepcopy(linker)`, a copied
  `CoreModelSettings`), the linker is written only after the last statement;
* `withTemporaries set n restore` — temporary settings are installed, `n` statements run inside
  `try`, and `finally` restores them.

`opTable` records which shape each public operation has (read off the code; the fault-injection
correspondence is what ties the table to the running code).
-/
namespace SplinkVerif.Txn

structure Obs where
  model : Nat
  rules : Nat
  retain : Nat
  linkType : Nat
  deriving DecidableEq, Repr

inductive Prog
  | skip
  | sql
  | write (f : Obs → Obs)
  | seq (p q : Prog)
  | tryFinally (body fin : Prog)

inductive Outcome
  | ok
  | raised
  deriving DecidableEq, Repr

structure Res where
  obs : Obs
  out : Outcome
  /-- statements still to run before the injected fault fires (`none`: no fault pending) -/
  fuel : Option Nat

/-- Run a program; the fault fires at the statement reached with `fuel = some 0`. -/
def exec : Prog → Obs → Option Nat → Res
  | .skip, s, k => ⟨s, .ok, k⟩
  | .sql, s, none => ⟨s, .ok, none⟩
  | .sql, s, some 0 => ⟨s, .raised, none⟩
  | .sql, s, some (k + 1) => ⟨s, .ok, some k⟩
  | .write f, s, k => ⟨f s, .ok, k⟩
  | .seq p q, s, k =>
    let r := exec p s k
    match r.out with
    | .ok => exec q r.obs r.fuel
    | .raised => r
  | .tryFinally body fin, s, k =>
    let r := exec body s k
    -- the finally block always runs (its own statements are not faulted again here)
    let r' := exec fin r.obs none
    ⟨r'.obs, r.out, r.fuel⟩

/-- `n` backend statements in a row. -/
def sqls : Nat → Prog
  | 0 => .skip
  | n + 1 => .seq .sql (sqls n)

/-- Work on a copy, write the linker once at the very end. -/
def copyThenCommit (n : Nat) (commit : Obs → Obs) : Prog := .seq (sqls n) (.write commit)

/-- Install temporaries, run, restore in `finally`. -/
def withTemporaries (set : Obs → Obs) (n : Nat) (restore : Obs → Obs) : Prog :=
  .seq (.write set) (.tryFinally (sqls n) (.write restore))

/-- The same without `finally` (restore only on success). -/
def withTemporariesNoFinally (set : Obs → Obs) (n : Nat) (restore : Obs → Obs) : Prog :=
  .seq (.write set) (.seq (sqls n) (.write restore))

/-- Mutate the live object first, then run, then commit (the shape `EMTrainingSession` had). -/
def mutateThenRun (early : Obs → Obs) (n : Nat) (commit : Obs → Obs) : Prog :=
  .seq (.write early) (.seq (sqls n) (.write commit))

/-- Shapes of the public operations. -/
inductive Shape
  | copyThenCommit
  | withTemporaries
  /-- issues statements only; never writes the observable state -/
  | readOnly
  deriving DecidableEq, Repr

/-- Which shape each public operation has in the code under test. -/
def opTable : List (String × Shape) :=
  [ ("estimate_u_using_random_sampling", .copyThenCommit),
    ("estimate_m_from_label_column", .copyThenCommit),
    ("estimate_m_from_pairwise_labels", .copyThenCommit),
    ("estimate_parameters_using_expectation_maximisation", .copyThenCommit),
    ("estimate_probability_two_random_records_match", .copyThenCommit),
    ("predict", .readOnly),
    ("deterministic_link", .readOnly),
    ("find_matches_to_new_records", .withTemporaries),
    ("compare_two_records", .withTemporaries),
    ("cluster_pairwise_predictions_at_threshold", .readOnly),
    ("compute_graph_metrics", .readOnly),
    ("compute_tf_table", .readOnly) ]

def progOf (sh : Shape) (n : Nat) (set restore commit : Obs → Obs) : Prog :=
  match sh with
  | .copyThenCommit => copyThenCommit n commit
  | .withTemporaries => withTemporaries set n restore
  | .readOnly => sqls n

end SplinkVerif.Txn
