import SplinkVerif.Model.CC
/-!
# Model of `clustering.py:cluster_pairwise_predictions_at_multiple_thresholds`

Mirrors, in order: the sort of the threshold list
(`threshold_args_to_match_prob_list`), the first clustering at the lowest
threshold, and for every further threshold
`_calculate_stable_clusters_at_new_threshold` (`__splink__relevant_edges`,
`__splink__cluster_edge_probabilities`, `__splink__stable_clusters_at_new_threshold`,
`__splink__stable_nodes_at_new_threshold`), `__splink__nodes_in_play`,
`__splink__edges_in_play`, the marginal clustering and the `UNION ALL`; finally
`_get_cluster_stats_sql`.

Probabilities live in an arbitrary type `α` compared with `ge` (the driver uses
`Float` and `>=`; the theorems assume only that `ge` is transitive and the
thresholds are sorted).  The marginal call clusters the *sub-table* of nodes in
play; on node ids `0..n-1` this is `CC.cluster` on the edges in play with the
rows of the stable nodes dropped (stable nodes are isolated there, contribute
nothing to any `min`, and never `need updating`).
-/
namespace SplinkVerif.MultiThreshold
open SplinkVerif

abbrev PEdge (α : Type) := Nat × Nat × α
/-- rows `(node_id, cluster_id)` -/
abbrev Clustering := List (Nat × Nat)

variable {α : Type}

/-- `cluster_pairwise_predictions_at_threshold` on the nodes satisfying `inPlay`. -/
def ccAt (ge : α → α → Bool) (n : Nat) (inPlay : Nat → Bool) (edges : List (PEdge α)) (t : α) :
    Clustering :=
  (CC.cluster n (CC.thresholdEdges ge (some t) edges)).filter fun r => inPlay r.1

/-- `__splink__cluster_edge_probabilities` for one cluster: the probabilities of the
relevant edges (`p >= previous threshold`) whose left endpoint is a member, then
those whose right endpoint is a member (NULL rows of the LEFT JOINs carry no value). -/
def clusterEdgeProbs (ge : α → α → Bool) (cc : Clustering) (edges : List (PEdge α)) (tPrev : α)
    (c : Nat) : List α :=
  let rel := edges.filter fun e => ge e.2.2 tPrev
  let members := (cc.filter fun r => r.2 == c).map (·.1)
  (rel.filter fun e => members.contains e.1).map (·.2.2) ++
  (rel.filter fun e => members.contains e.2.1).map (·.2.2)

/-- `HAVING coalesce(min(match_probability), 1.0) >= new_threshold`:
`min(p) >= t` iff every `p >= t`; an empty group gives `1.0 >= t`. -/
def isStable (ge : α → α → Bool) (one : α) (cc : Clustering) (edges : List (PEdge α))
    (tPrev tNew : α) (c : Nat) : Bool :=
  match clusterEdgeProbs ge cc edges tPrev c with
  | [] => ge one tNew
  | ps => ps.all fun p => ge p tNew

/-- `__splink__stable_nodes_at_new_threshold` -/
def stableNodes (ge : α → α → Bool) (one : α) (n : Nat) (edges : List (PEdge α)) (cc : Clustering)
    (tPrev tNew : α) : Clustering :=
  let st := Tab.build n (isStable ge one cc edges tPrev tNew)
  cc.filter fun r => st.get r.2

/-- `__splink__nodes_in_play` as a membership test. -/
def inPlay (n : Nat) (stable : Clustering) : Tab Bool :=
  Tab.build n fun i => !(stable.any fun r => r.1 == i)

/-- `__splink__edges_in_play` -/
def edgesInPlay (ip : Nat → Bool) (edges : List (PEdge α)) : List (PEdge α) :=
  edges.filter fun e => ip e.1 && ip e.2.1

/-- One pass of the `for new_threshold in …` loop: stable nodes `UNION ALL` the
marginal clustering of the nodes in play (`__splink__clusters_at_threshold`). -/
def next (ge : α → α → Bool) (one : α) (n : Nat) (edges : List (PEdge α)) (cc : Clustering)
    (tPrev tNew : α) : Clustering :=
  let sn := stableNodes ge one n edges cc tPrev tNew
  let ip := inPlay n sn
  sn ++ ccAt ge n ip.get (edgesInPlay ip.get edges) tNew

/-- The `needs_updating` counts logged by the marginal clustering of one pass. -/
def nextTrace (ge : α → α → Bool) (one : α) (n : Nat) (edges : List (PEdge α)) (cc : Clustering)
    (tPrev tNew : α) : List Nat :=
  let sn := stableNodes ge one n edges cc tPrev tNew
  let ip := inPlay n sn
  CC.trace n (CC.thresholdEdges ge (some tNew) (edgesInPlay ip.get edges))

/-- The loop over the remaining (sorted) thresholds. -/
def loop (ge : α → α → Bool) (one : α) (n : Nat) (edges : List (PEdge α)) :
    Clustering → α → List α → List (α × Clustering)
  | _, _, [] => []
  | cc, tPrev, t :: ts =>
    let cc' := next ge one n edges cc tPrev t
    (t, cc') :: loop ge one n edges cc' t ts

/-- Insertion sort by `ge` (Python's `sorted`, ascending). -/
def insertSorted (ge : α → α → Bool) (x : α) : List α → List α
  | [] => [x]
  | y :: ys => if ge y x then x :: y :: ys else y :: insertSorted ge x ys

def sortAsc (ge : α → α → Bool) (l : List α) : List α := l.foldr (insertSorted ge) []

/-- Logged counts of every pass of `loop`. -/
def loopTraces (ge : α → α → Bool) (one : α) (n : Nat) (edges : List (PEdge α)) :
    Clustering → α → List α → List (List Nat)
  | _, _, [] => []
  | cc, tPrev, t :: ts =>
    nextTrace ge one n edges cc tPrev t :: loopTraces ge one n edges (next ge one n edges cc tPrev t) t ts

def multiTraces (ge : α → α → Bool) (one : α) (n : Nat) (edges : List (PEdge α)) (ts : List α) :
    List (List Nat) :=
  match sortAsc ge ts with
  | [] => []
  | t0 :: rest =>
    CC.trace n (CC.thresholdEdges ge (some t0) edges) ::
      loopTraces ge one n edges (ccAt ge n (fun _ => true) edges t0) t0 rest

/-- `all_results`: one clustering per threshold, thresholds ascending. -/
def multi (ge : α → α → Bool) (one : α) (n : Nat) (edges : List (PEdge α)) (ts : List α) :
    List (α × Clustering) :=
  match sortAsc ge ts with
  | [] => []
  | t0 :: rest =>
    let cc0 := ccAt ge n (fun _ => true) edges t0
    (t0, cc0) :: loop ge one n edges cc0 t0 rest

/-- `_get_cluster_stats_sql`: number of clusters, maximum size, total size
(`AVG(cluster_size)` = total / number). -/
def clusterSizes (cc : Clustering) : List Nat :=
  (cc.map (·.2)).eraseDups.map fun c => (cc.filter fun r => r.2 == c).length

structure Stats where
  numClusters : Nat
  maxSize : Nat
  totalSize : Nat
  deriving Repr, DecidableEq

def stats (cc : Clustering) : Stats :=
  let sz := clusterSizes cc
  { numClusters := sz.length, maxSize := sz.foldl max 0, totalSize := sz.sum }

end SplinkVerif.MultiThreshold
