import SplinkVerif.Model.Rel
import SplinkVerif.Generated.EMSql
/-!
# The M-step statements of `expectation_maximisation.py` at the level of the SQL they emit

`compute_new_parameters_sql` is a `UNION ALL` of one block per comparison (reading that comparison's gamma column of
`__splink__df_predict`) and the lambda block; `compute_proportions_for_new_parameters_sql` normalises the counts.  The blocks
are the regenerated terms of `Generated/EMSql.lean`; hand-written here: the `UNION ALL` over the comparisons (the translator
checks that the blocks of all comparisons are the same text up to the two names).
-/
namespace SplinkVerif.EMSql
open SplinkVerif.Rel

/-- A row of `__splink__df_predict` as the M-step reads it: the gamma values (one per comparison), `match_probability` (an exact
number here; a double in the engines), `agreement_pattern_count` (1 in row-wise mode). -/
structure PRow where
  gammas : List Int
  p : Rat
  count : Nat

/-- `predict_in` for comparison `ci`. -/
def predictIn (rows : List PRow) (ci : Nat) : List Row :=
  rows.map fun r => [Val.int (r.gammas.getD ci 0), Val.rat r.p, Val.int (r.count : Int)]

/-- `__splink__m_u_counts` = `compute_new_parameters_sql(useApc, comparisons)`; `names` = the output column names. -/
def mUCounts (useApc : Bool) (names : List String) (rows : List PRow) : List Row :=
  let block := fun (nm : String) (ci : Nat) =>
    (if useApc then Gen.EMSql.countsBlockApc (Val.str nm) else Gen.EMSql.countsBlockRows (Val.str nm)).eval
      (Db.set (fun _ => []) "predict_in" (predictIn rows ci))
  ((List.range names.length).flatMap fun ci => block (names.getD ci "") ci) ++
    (if useApc then Gen.EMSql.lambdaBlockApc else Gen.EMSql.lambdaBlockRows).eval
      (Db.set (fun _ => []) "predict_in" (predictIn rows 0))

/-- `compute_proportions_for_new_parameters_sql` on a counts table. -/
def proportions (mu : List Row) : List Row :=
  Gen.EMSql.proportions.eval (Db.set (fun _ => []) "mu_in" mu)

/-- The M-step as SQL: new `(comparison_vector_value, output_column_name, m_probability, u_probability)` rows. -/
def mStep (useApc : Bool) (names : List String) (rows : List PRow) : List Row :=
  proportions (mUCounts useApc names rows)

end SplinkVerif.EMSql
