import SplinkVerif.Model.Rel
namespace SplinkVerif.Rel

/-! ## Top-level `ORDER BY key [DESC] LIMIT n`

`Rel.eval` has bag semantics; a statement's final `ORDER BY … LIMIT n` is applied to its rows.  SQL leaves the order of rows with equal
keys (and where NULL keys go, which differs between engines) to the engine, so the semantics is a *relation*: `out` is a possible result
iff it is the first `n` rows of SOME arrangement of the rows in which no row is followed by a row with a strictly better key. -/

/-- `r` has a strictly better key than `c` (it must come first). -/
def strictlyBefore (key : Expr) (desc : Bool) (r c : Row) : Bool :=
  if desc then Val.lt (key.eval c) (key.eval r) else Val.lt (key.eval r) (key.eval c)

/-- `a` may precede `b`: `b`'s key is not strictly better (rows whose keys are not comparable — NULL — may go anywhere). -/
def mayPrecede (key : Expr) (desc : Bool) (a b : Row) : Prop := strictlyBefore key desc b a = false

/-- `out` is a possible result of `rows ORDER BY key [DESC] LIMIT n` (every resolution of ties is allowed). -/
def IsOrderLimit (key : Expr) (desc : Bool) (n : Nat) (rows out : List Row) : Prop :=
  ∃ sorted : List Row, sorted.Perm rows ∧ sorted.Pairwise (mayPrecede key desc) ∧ out = sorted.take n

/-- Insert into a list sorted by `key` (stable: after the rows that may precede it). -/
def insertByKey (key : Expr) (desc : Bool) (r : Row) : List Row → List Row
  | [] => [r]
  | c :: cs => if strictlyBefore key desc r c then r :: c :: cs else c :: insertByKey key desc r cs

/-- One executable resolution: stable insertion sort, then the cut (used by the driver; it is a possible result when the keys are
integers, `Lemmas.BCountSql.isOrderLimit_orderLimit`). -/
def orderLimit (key : Expr) (desc : Bool) (n : Nat) (rows : List Row) : List Row :=
  (rows.foldr (insertByKey key desc) []).take n

end SplinkVerif.Rel
