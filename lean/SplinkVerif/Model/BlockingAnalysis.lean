import SplinkVerif.Model.Blocking
/-!
# Model of `splink/internals/blocking_analysis.py`

* `groupCounts`/`blockCounts`/`preFilterCount` — `_count_comparisons_from_blocking_rule_pre_filter_conditions_sqls`
  (`GROUP BY` the equi-join keys on each side, `INNER JOIN … USING`, `sum(count_l * count_r)`)
* `postFilterCount` — `_number_of_comparisons_generated_by_blocking_rule_post_filters_sqls`
* `cumulative` — `_cumulative_comparisons_to_be_scored_from_blocking_rules` (row counts per `match_key`
  over the real blocking SQL, zero for silent rules, running totals)
* `nLargest` — `n_largest_blocks`

The equi-join key of a record is an `Option Nat` (a code of the tuple of key
expressions; `none` when a component is NULL): which conjuncts of a rule are
equi-join keys is decided by sqlglot (`join_condition`) and is an input here.
-/
namespace SplinkVerif.BlockingAnalysis
open SplinkVerif SplinkVerif.Blocking

/-- `select key, count(*) … group by key` (NULL is a group of its own). -/
def groupCounts (xs : List Nat) (key : Nat → Option Nat) : List (Option Nat × Nat) :=
  ((xs.map key).eraseDups).map fun k => (k, (xs.filter fun i => key i == k).length)

/-- `__splink__block_counts`: `inner join … using (key)` — NULL keys never join. -/
def blockCounts (L R : List Nat) (keyL keyR : Nat → Option Nat) : List (Nat × Nat × Nat) :=
  (groupCounts L keyL).flatMap fun g =>
    match g.1 with
    | none => []
    | some v =>
      ((groupCounts R keyR).filter fun g' => g'.1 == some v).map fun g' => (v, g.2, g'.2)

/-- `sum(count_l * count_r)` (0 when there is no block). -/
def preFilterCount (L R : List Nat) (keyL keyR : Nat → Option Nat) : Nat :=
  ((blockCounts L R keyL keyR).map fun b => b.2.1 * b.2.2).sum

/-- No equi-join condition: `count_l * count_r`. -/
def preFilterCountNoKeys (L R : List Nat) : Nat := L.length * R.length

/-- Inputs of the join for the analysis functions: the two tables in *argument
order* for `link_only` with two tables, the concatenation otherwise. -/
def analysisLeft (lt : LinkType) (t : Table) (firstSd : Nat) : List Nat :=
  match lt with
  | .twoDatasetLinkOnly => (List.range t.m).filter fun i => t.sd i == firstSd
  | _ => List.range t.m

def analysisRight (lt : LinkType) (t : Table) (firstSd : Nat) : List Nat :=
  match lt with
  | .twoDatasetLinkOnly => (List.range t.m).filter fun i => t.sd i != firstSd
  | _ => List.range t.m

/-- `count(*) from l inner join r on rule where <link type condition>`. -/
def postFilterCount (lt : LinkType) (t : Table) (firstSd : Nat) (rule : Nat → Nat → B3) : Nat :=
  (joinFilter (analysisLeft lt t firstSd) (analysisRight lt t firstSd) fun l r =>
    B3.isTrue (rule l r) && whereCond lt t l r).length

/-- Rows of the cumulative table: `(row_count, cumulative_rows, start)` per rule. -/
def rowCounts (lt : LinkType) (t : Table) (rules : List Rule) : List Nat :=
  let out := block lt t rules
  (List.range rules.length).map fun i => (out.filter fun row => row.1 == i).length

def runningTotals : Nat → List Nat → List Nat
  | _, [] => []
  | acc, c :: cs => (acc + c) :: runningTotals (acc + c) cs

structure CumRow where
  rowCount : Nat
  cumulativeRows : Nat
  start : Nat
  deriving Repr, DecidableEq

def cumulative (lt : LinkType) (t : Table) (rules : List Rule) : List CumRow :=
  let rc := rowCounts lt t rules
  (rc.zip (runningTotals 0 rc)).map fun p =>
    { rowCount := p.1, cumulativeRows := p.2, start := p.2 - p.1 }

/-- Number of admissible pairs of the link type (what `cartesian` must equal). -/
def admissiblePairs (lt : LinkType) (t : Table) : Nat :=
  (joinFilter (List.range t.m) (List.range t.m) fun l r => whereCond lt t l r).length

/-- Insert into a list sorted by descending `count_l * count_r`. -/
def insertDesc (b : Nat × Nat × Nat) : List (Nat × Nat × Nat) → List (Nat × Nat × Nat)
  | [] => [b]
  | c :: cs => if b.2.1 * b.2.2 ≥ c.2.1 * c.2.2 then b :: c :: cs else c :: insertDesc b cs

/-- `order by count_l * count_r desc limit n`. -/
def nLargest (n : Nat) (blocks : List (Nat × Nat × Nat)) : List (Nat × Nat × Nat) :=
  (blocks.foldr insertDesc []).take n

end SplinkVerif.BlockingAnalysis
