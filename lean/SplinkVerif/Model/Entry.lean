import SplinkVerif.Model.Score
import SplinkVerif.Model.Blocking
/-!
# Model of the five inference entry points

Mirrors `linker_components/inference.py` (`predict`, `compare_two_records`,
`find_matches_to_new_records`, `_score_missing_cluster_edges`), `realtime.py:
compare_records`, `term_frequencies.py` (`_join_tf_to_df_concat_sql`,
`_join_new_table_to_df_concat_with_tf_sql`) and `find_matches_to_new_records.py`.

Every entry point ends in the same `predict_from_comparison_vectors_sqls_using_settings`
(`Score.score`); what differs is (a) where the `tf_<col>_l/_r` columns of the pair
come from and (b) which pairs are scored.  Records are indices into `World.recs`;
the outcomes of the level conditions on a pair are `World.guards l r` (evaluated by
the engine; the scoring model of C02 takes them as input).  Values of a
term-frequency column are codes `Nat`, NULL = `none`.
-/
namespace SplinkVerif.Entry
open SplinkVerif SplinkVerif.Score SplinkVerif.Blocking

/-- What the TF machinery reads of one record. -/
structure Rec (α : Type) where
  /-- value of TF column `c` (`none` = NULL) -/
  val : Nat → Option Nat
  /-- the record's own `tf_<c>` field: `none` = the column is absent from the record,
  `some none` = present and NULL, `some (some x)` = present -/
  supplied : Nat → Option (Option α)

/-- The model and the TF state of a linker. -/
structure Linker (α : Type) where
  /-- `probability_two_random_records_match` -/
  prior : α
  comparisons : List (Comparison α)
  /-- `__splink__df_tf_<c>`: value ↦ term frequency (computed from the input data by
  `term_frequencies_for_single_column_sql`, or the registered lookup; `none` = no row) -/
  tf : Nat → Nat → Option α
  /-- value `v` of column `c` occurs in the input data (`__splink__df_concat`) -/
  inData : Nat → Nat → Bool
  /-- `__splink__df_tf_<c>` is in the linker's cache (`compute_tf_table` / `register_term_frequency_lookup`) -/
  tableCached : Nat → Bool
  /-- `__splink__df_concat_with_tf` is in the linker's cache (any earlier `predict`, …) -/
  concatCached : Bool

structure World (α : Type) where
  recs : Nat → Rec α
  /-- outcomes of the level conditions of every comparison on the ordered pair -/
  guards : Nat → Nat → List (List B3)

variable {α : Type} [Num α]

/-- `_join_tf_to_df_concat_sql`: `left join __splink__df_tf_<c> on concat.<c> = tf.<c>` — the
`tf_<c>` column of a row of `__splink__df_concat_with_tf`. -/
def joinedTf (L : Linker α) (r : Rec α) (c : Nat) : Option α := (r.val c).bind (L.tf c)

/-- `select distinct <c>, tf_<c> from __splink__df_concat_with_tf` as a lookup: only
values that occur in the data have a row. -/
def concatDistinct (L : Linker α) (c : Nat) (v : Nat) : Option α :=
  if L.inData c v then L.tf c v else none

/-- `_join_new_table_to_df_concat_with_tf_sql` for one TF column of an ad-hoc record.
`honour` = the `input_table` argument was passed (`compare_two_records`): a `tf_<c>` column
of the record wins (even when NULL).  Otherwise the cached `__splink__df_tf_<c>`, else the
distinct values of the cached `__splink__df_concat_with_tf`, else `null as tf_<c>`. -/
def newRecordTf (honour : Bool) (L : Linker α) (r : Rec α) (c : Nat) : Option α :=
  match (if honour then r.supplied c else none) with
  | some x => x
  | none =>
    if L.tableCached c then (r.val c).bind (L.tf c)
    else if L.concatCached then (r.val c).bind (concatDistinct L c)
    else none

/-- `realtime.compare_records`: the TF columns are the records' own fields and nothing else
(a record without the field makes the SQL fail to bind; modelled as NULL). -/
def ownTf (r : Rec α) (c : Nat) : Option α := (r.supplied c).join

/-- `predict_from_comparison_vectors_sqls_using_settings` on the comparison-vector row of `(l, r)`
whose `tf_*_l`, `tf_*_r` columns are `tfl`, `tfr`. -/
def scoreWith (L : Linker α) (W : World α) (tfl tfr : Nat → Option α) (l r : Nat) : Scored α :=
  score L.prior L.comparisons { guards := W.guards l r, tfl := tfl, tfr := tfr }

/-- `predict()`: both sides are rows of `__splink__df_concat_with_tf`. -/
def predictPair (L : Linker α) (W : World α) (l r : Nat) : Scored α :=
  scoreWith L W (joinedTf L (W.recs l)) (joinedTf L (W.recs r)) l r

/-- `compare_two_records(record_1, record_2)`: both sides go through the ad-hoc TF join. -/
def compareTwoRecords (L : Linker α) (W : World α) (l r : Nat) : Scored α :=
  scoreWith L W (newRecordTf true L (W.recs l)) (newRecordTf true L (W.recs r)) l r

/-- `realtime.compare_records(record_1, record_2, settings, db_api)`. -/
def realtimeCompare (L : Linker α) (W : World α) (l r : Nat) : Scored α :=
  scoreWith L W (ownTf (W.recs l)) (ownTf (W.recs r)) l r

/-- `where match_weight > {match_weight_threshold}` — strict; NULL is dropped, `Infinity` kept. -/
def keepStrict (thr : α) (s : Scored α) : Bool :=
  match s.weight with
  | some (.fin w) => Num.gt w thr
  | some .inf => true
  | none => false

/-- The two inputs of the `two_dataset_link_only` join of `find_matches_to_new_records`:
records `0..nE-1` are `__splink__df_concat_with_tf` (left), records `nE..nE+nN-1` the
new records (`__splink__df_new_records_uid_fix`, right). -/
def fmTable (nE nN : Nat) (part : Nat → Nat → Nat) : Table :=
  { m := nE + nN, key := id, sd := fun i => if i < nE then 0 else 1, part := part }

/-- Scoring in `find_matches_to_new_records`: left = row of `__splink__df_concat_with_tf`,
right = `__splink__df_new_records_with_tf` (ad-hoc TF join *without* `input_table`). -/
def fmScore (L : Linker α) (W : World α) (e n : Nat) : Scored α :=
  scoreWith L W (joinedTf L (W.recs e)) (newRecordTf false L (W.recs n)) e n

/-- `find_matches_to_new_records(new, blocking_rules, match_weight_threshold)`:
block existing × new, score, `where match_weight > threshold`. -/
def findMatches (L : Linker α) (W : World α) (nE nN : Nat) (part : Nat → Nat → Nat)
    (rules : List Rule) (thr : α) : List (Row × Scored α) :=
  ((block .twoDatasetLinkOnly (fmTable nE nN part) rules).map fun row =>
      (row, fmScore L W row.2.1 row.2.2)).filter fun x => keepStrict thr x.2

/-- `BlockingRule("l._cluster_id = r._cluster_id")` (cluster ids are not NULL). -/
def clusterRule (cluster : Nat → Nat) : Rule :=
  { kind := .plain, eval := fun l r => some (cluster l == cluster r) }

/-- `__splink__raw_blocked_id_pairs` anti-joined with the supplied predictions:
`LEFT JOIN … oe ON (oe.join_key_l = ne.join_key_l AND oe.join_key_r = ne.join_key_r)
OR (oe.join_key_l = ne.join_key_r AND oe.join_key_r = ne.join_key_l)
WHERE oe.join_key_l IS NULL AND oe.join_key_r IS NULL`.  `t` is `__splink__df_clusters_renamed`;
`supplied` are the `(join_key_l, join_key_r)` of the rows of `df_predict` as ranks of composite
ids (the same scale as `t.key`).  The join matches a supplied row in either orientation (the code
used to match the ordered pair only — finding F23, repaired in /repo). -/
def missingPairs (lt : LinkType) (t : Table) (cluster : Nat → Nat) (supplied : List (Nat × Nat)) :
    List Row :=
  (block lt t [clusterRule cluster]).filter fun row =>
    !(supplied.contains (t.key row.2.1, t.key row.2.2)) &&
    !(supplied.contains (t.key row.2.2, t.key row.2.1))

/-- `_score_missing_cluster_edges(df_clusters, df_predict)`: both sides are rows of
`__splink__df_concat_with_tf` (`ctf.*`). -/
def missingEdges (L : Linker α) (W : World α) (lt : LinkType) (t : Table) (cluster : Nat → Nat)
    (supplied : List (Nat × Nat)) : List (Row × Scored α) :=
  (missingPairs lt t cluster supplied).map fun row => (row, predictPair L W row.2.1 row.2.2)

end SplinkVerif.Entry
