import SplinkVerif.Model.Base
/-!
# Library comparison levels and comparisons (C16)

Mirrors `splink/internals/comparison_level_library.py` (one `LevelKind` constructor per level
creator, `sat` = the SQL condition its `create_sql` emits, under SQL three-valued logic),
`comparison_level_composition.py` (`And`/`Or`/`Not`), `comparison_library.py` (`levelsOf` = every
`create_comparison_levels`, thresholds in the order the caller gave them: the library never sorts),
`comparison.py` (`gammaValues` = the `comparison_vector_value` numbering, `gammaOf` = the `CASE WHEN`).

A level refers to *column expressions* (`ColExpr` = a column name plus the list of
`ColumnExpression` operations: regex_extract, try_parse_date, cast_to_string, …).  A record is a
valuation `Env : ColExpr → Val` giving the SQL value of each column expression on that side
(`Val.null` = NULL: a missing value, a failed `try_strptime`, a `NULLIF(regexp_extract(..),'')`
that matched nothing).  Regex matching and date parsing are therefore inputs of the model
(evaluated by the harness oracle and by the engines), everything downstream is modelled.

Reference string metrics are defined here (Levenshtein, unrestricted Damerau–Levenshtein as DuckDB
and rapidfuzz implement it, Jaro, Jaro–Winkler, Jaccard on character sets as DuckDB defines it).
Great-circle distance, cosine similarity and user-named distance functions are the fields of
`Metrics` (floating-point / arbitrary SQL functions): every theorem holds for all `Metrics`.
-/
namespace SplinkVerif.Levels
open SplinkVerif SplinkVerif.B3

/-- A decimal constructor argument (`0.88` ↦ `22/25`); structural equality, `toRat` for arithmetic. -/
structure Q where
  num : Int
  den : Nat
  deriving DecidableEq, Repr

def Q.toRat (q : Q) : Rat := mkRat q.num q.den

/-- SQL values of a column expression. Dates/timestamps are epoch seconds (`int`). -/
inductive Val
  | null
  | str (s : String)
  | int (i : Int)
  | rat (q : Q)
  | strArray (xs : List String)
  | ratArray (xs : List Q)
  deriving DecidableEq, Repr

/-- `ColumnExpression.operations` (column_expression.py). -/
inductive Op
  | regexExtract (pattern : String) (group : Nat)
  | tryParseDate (fmt : Option String)
  | tryParseTimestamp (fmt : Option String)
  | castToString
  | lower
  | substr (start len : Nat)
  | nullif (v : String)
  | arrayElement (first : Bool)
  deriving DecidableEq, Repr

/-- `ColumnExpression`: raw expression + operations applied in order. -/
structure ColExpr where
  base : String
  ops : List Op
  deriving DecidableEq, Repr

def ColExpr.push (c : ColExpr) (o : Op) : ColExpr := { c with ops := c.ops ++ [o] }

/-- One side of a pair: the value of every column expression. -/
abbrev Env := ColExpr → Val

inductive StrMetric | levenshtein | damerauLevenshtein | jaroWinkler | jaro
  deriving DecidableEq, Repr

inductive TimeUnit | second | minute | hour | day | month | year
  deriving DecidableEq, Repr

/-- `AbsoluteTimeDifferenceLevel.convert_time_metric_to_seconds`. -/
def TimeUnit.seconds : TimeUnit → Rat
  | .second => 1
  | .minute => 60
  | .hour => 3600
  | .day => 86400
  | .month => 2629800      -- 60*60*24*365.25/12
  | .year => 31557600      -- 60*60*24*365.25

inductive Side | left | right | both
  deriving DecidableEq, Repr

/-- One constructor per level creator of comparison_level_library.py (+ the private
`_DamerauLevenshteinIfSupportedElseLevenshteinLevel` of comparison_library.py, + And/Or/Not). -/
inductive LevelKind
  | null (c : ColExpr)
  | else_
  | custom (sql : String)
  | exact (c : ColExpr)
  | literal (c : ColExpr) (v : Val) (side : Side)
  | columnsReversed (c1 c2 : ColExpr) (symmetrical : Bool)
  | levenshtein (c : ColExpr) (k : Q)
  | damerauLevenshtein (c : ColExpr) (k : Q)
  | dlOrLev (c : ColExpr) (k : Q)
  | jaroWinkler (c : ColExpr) (t : Q)
  | jaro (c : ColExpr) (t : Q)
  | jaccard (c : ColExpr) (t : Q)
  | distanceFunction (c : ColExpr) (fn : String) (t : Q) (higherIsMoreSimilar : Bool)
  | pairwise (c : ColExpr) (m : StrMetric) (t : Q)
  | absoluteTimeDifference (c : ColExpr) (inputIsString : Bool) (t : Q) (unit : TimeUnit) (fmt : Option String)
  | absoluteDateDifference (c : ColExpr) (inputIsString : Bool) (t : Q) (unit : TimeUnit) (fmt : Option String)
  | distanceInKm (lat long : ColExpr) (t : Q) (notNull : Bool)
  | cosineSimilarity (c : ColExpr) (t : Q)
  | arrayIntersect (c : ColExpr) (n : Q)
  | arraySubset (c : ColExpr) (emptyIsSubset : Bool)
  | percentageDifference (c : ColExpr) (t : Q)
  | absoluteDifference (c : ColExpr) (t : Q)
  | and (a b : LevelKind)
  | or (a b : LevelKind)
  | not (a : LevelKind)
  deriving DecidableEq, Repr

/-! ## Reference metrics -/

/-- Levenshtein distance, textbook recursion (specification; exponential). -/
def levSpec : List Char → List Char → Nat
  | [], b => b.length
  | a, [] => a.length
  | x :: a, y :: b =>
    min (levSpec a (y :: b) + 1) (min (levSpec (x :: a) b + 1) (levSpec a b + (if x = y then 0 else 1)))

/-- `[n, n-1, …, 0]`: distances of the empty prefix against every suffix. -/
def downFrom : Nat → List Nat
  | 0 => [0]
  | n + 1 => (n + 1) :: downFrom n

/-- One Wagner–Fischer row, computed over the suffixes of `b` from the right:
`prev = [lev a b, lev a b.tail, …, lev a []]` ↦ the same for `x :: a`. -/
def levStep (x : Char) : List Char → List Nat → List Nat
  | [], prev => [prev.headD 0 + 1]
  | y :: b, prev =>
    let rest := levStep x b prev.tail
    min (prev.headD 0 + 1) (min (rest.headD 0 + 1) (prev.tail.headD 0 + (if x = y then 0 else 1))) :: rest

/-- Wagner–Fischer rows. -/
def levRow : List Char → List Char → List Nat
  | [], b => downFrom b.length
  | x :: a, b => levStep x b (levRow a b)

/-- Levenshtein distance (quadratic, the one the driver runs). -/
def lev (a b : List Char) : Nat := (levRow a b).headD 0

/-- Unrestricted Damerau–Levenshtein distance (adjacent transpositions, edits between them allowed:
`ca`→`abc` is 2), Lowrance–Wagner table. DuckDB's `damerau_levenshtein` and rapidfuzz's
`DamerauLevenshtein.distance` both implement this variant (checked by the correspondence). -/
def damerau (a b : List Char) : Nat := Id.run do
  let s := a.toArray
  let t := b.toArray
  let n := s.size
  let m := t.size
  let inf := n + m
  -- H has (n+2) x (m+2) entries, flattened
  let w := m + 2
  let mut H : Array Nat := Array.replicate ((n + 2) * w) 0
  H := H.set! 0 inf
  for i in [0:n+1] do
    H := H.set! ((i + 1) * w + 0) inf
    H := H.set! ((i + 1) * w + 1) i
  for j in [0:m+1] do
    H := H.set! (0 * w + (j + 1)) inf
    H := H.set! (1 * w + (j + 1)) j
  let mut da : List (Char × Nat) := []
  for i in [1:n+1] do
    let mut db := 0
    for j in [1:m+1] do
      let i1 := ((da.find? (fun p => p.1 == t[j-1]!)).map (·.2)).getD 0
      let j1 := db
      let cost := if s[i-1]! == t[j-1]! then 0 else 1
      if cost == 0 then db := j
      let sub := H[i * w + j]! + cost
      let ins := H[(i + 1) * w + j]! + 1
      let del := H[i * w + (j + 1)]! + 1
      let tr := H[i1 * w + j1]! + (i - i1 - 1) + 1 + (j - j1 - 1)
      H := H.set! ((i + 1) * w + (j + 1)) (min (min sub ins) (min del tr))
    da := (s[i-1]!, i) :: da.filter (fun p => p.1 != s[i-1]!)
  return H[(n + 1) * w + (m + 1)]!

/-- Jaro similarity over exact rationals (greedy matching inside the window
`max(|a|,|b|)/2 - 1`, half the number of out-of-order nMatch as transpositions).
Two empty strings: 1 (rapidfuzz); DuckDB returns 0 there — excluded from the correspondence. -/
def jaroSim (a b : List Char) : Rat := Id.run do
  let s := a.toArray
  let t := b.toArray
  let n := s.size
  let m := t.size
  if n == 0 && m == 0 then return 1
  if n == 0 || m == 0 then return 0
  let win := (max n m) / 2 - 1
  let mut tm : Array Bool := Array.replicate m false
  let mut sm : Array Bool := Array.replicate n false
  let mut nMatch := 0
  for i in [0:n] do
    let lo := i - win
    let hi := min (i + win + 1) m
    let mut found := false
    for j in [lo:hi] do
      if !found && !tm[j]! && s[i]! == t[j]! then
        tm := tm.set! j true
        sm := sm.set! i true
        nMatch := nMatch + 1
        found := true
  if nMatch == 0 then return 0
  let ms := (List.range n).filter (fun i => sm[i]!) |>.map (fun i => s[i]!)
  let mt := (List.range m).filter (fun j => tm[j]!) |>.map (fun j => t[j]!)
  let halfTrans := ((ms.zip mt).filter (fun p => p.1 != p.2)).length / 2
  let mm : Rat := (nMatch : Nat)
  return (mm / (n : Nat) + mm / (m : Nat) + (mm - (halfTrans : Nat)) / mm) / 3

def commonPrefix : List Char → List Char → Nat
  | x :: a, y :: b => if x = y then commonPrefix a b + 1 else 0
  | _, _ => 0

/-- Jaro–Winkler similarity: prefix weight 1/10, at most 4 prefix characters, boost only above 7/10. -/
def jaroWinklerSim (a b : List Char) : Rat :=
  let j := jaroSim a b
  if j > (7 : Rat) / 10 then
    let p : Rat := ((min (commonPrefix a b) 4 : Nat) : Rat)
    j + p * (1 / 10) * (1 - j)
  else j

/-- Jaccard on the *sets of characters* (DuckDB's `jaccard`); `none` when a string is empty
(DuckDB raises 'An argument too short'). -/
def jaccardSim (a b : List Char) : Option Rat :=
  let sa := a.eraseDups
  let sb := b.eraseDups
  if sa.isEmpty || sb.isEmpty then none
  else
    let inter := (sa.filter (fun c => sb.contains c)).length
    let uni := sa.length + sb.length - inter
    some (((inter : Nat) : Rat) / ((uni : Nat) : Rat))

/-- Metrics the model takes as inputs: floating-point great-circle distance (km) from
(lat_l, lat_r, long_l, long_r), cosine similarity of two embeddings, the user-named SQL function of
`DistanceFunctionLevel`, and the truth value of a `CustomLevel`'s SQL. -/
structure Metrics where
  km : Rat → Rat → Rat → Rat → Option Rat
  cosine : List Q → List Q → Option Rat
  fn : String → Val → Val → Option Rat
  custom : String → Env → Env → B3

/-! ## SQL atoms -/

def Val.isNull : Val → Bool
  | .null => true
  | _ => false

def Val.num? : Val → Option Rat
  | .int i => some (i : Int)
  | .rat q => some q.toRat
  | _ => none

/-- SQL `=`. -/
def eq3 : Val → Val → B3
  | .null, _ => none
  | _, .null => none
  | .str a, .str b => some (a == b)
  | .strArray a, .strArray b => some (a == b)
  | .ratArray a, .ratArray b => some (a.map Q.toRat == b.map Q.toRat)
  | a, b =>
    match a.num?, b.num? with
    | some x, some y => some (x == y)
    | _, _ => some false

/-- `d <= t`, NULL when the distance is NULL. -/
def cmpLe (d : Option Rat) (t : Rat) : B3 := d.map (fun x => decide (x ≤ t))
/-- `d >= t`. -/
def cmpGe (d : Option Rat) (t : Rat) : B3 := d.map (fun x => decide (t ≤ x))
/-- `d < t`. -/
def cmpLt (d : Option Rat) (t : Rat) : B3 := d.map (fun x => decide (x < t))

def strDist (f : List Char → List Char → Option Rat) : Val → Val → Option Rat
  | .str a, .str b => f a.toList b.toList
  | _, _ => none

def natDist (f : List Char → List Char → Nat) (a b : List Char) : Option Rat := some ((f a b : Nat) : Rat)

def StrMetric.higherIsMoreSimilar : StrMetric → Bool
  | .levenshtein | .damerauLevenshtein => false
  | .jaroWinkler | .jaro => true

def StrMetric.eval : StrMetric → List Char → List Char → Rat
  | .levenshtein, a, b => ((lev a b : Nat) : Rat)
  | .damerauLevenshtein, a, b => ((damerau a b : Nat) : Rat)
  | .jaroWinkler, a, b => jaroWinklerSim a b
  | .jaro, a, b => jaroSim a b

def ratMin : List Rat → Option Rat
  | [] => none
  | x :: xs => some (xs.foldl (fun m y => if y < m then y else m) x)

def ratMax : List Rat → Option Rat
  | [] => none
  | x :: xs => some (xs.foldl (fun m y => if m < y then y else m) x)

/-- `list_min/list_max(list_transform(flatten(all pairs), metric))`: NULL when an array is NULL or
there is no pair. -/
def pairwiseBest (m : StrMetric) : Val → Val → Option Rat
  | .strArray xs, .strArray ys =>
    let ds := xs.flatMap (fun x => ys.map (fun y => m.eval x.toList y.toList))
    if m.higherIsMoreSimilar then ratMax ds else ratMin ds
  | _, _ => none

def absDiff (x y : Option Rat) : Option Rat :=
  match x, y with
  | some a, some b => some (a - b).abs
  | _, _ => none

/-- `ABS(l - r) / (CASE WHEN r > l THEN r ELSE l END)`; NULL on NULL input and when the divisor is 0. -/
def pctDiff (x y : Option Rat) : Option Rat :=
  match x, y with
  | some a, some b =>
    let g := if a < b then b else a
    if g = 0 then none else some ((a - b).abs / g)
  | _, _ => none

def interSize (a b : List String) : Nat := (a.eraseDups.filter (fun x => b.contains x)).length

def kmOf (M : Metrics) (latL latR longL longR : Val) : Option Rat :=
  match latL.num?, latR.num?, longL.num?, longR.num? with
  | some a, some b, some c, some d => M.km a b c d
  | _, _, _, _ => none

/-- The SQL condition of a level (what `create_sql` emits), three-valued. -/
def sat (M : Metrics) : LevelKind → Env → Env → B3
  | .null c, l, r => some ((l c).isNull || (r c).isNull)
  | .else_, _, _ => some true
  | .custom s, l, r => M.custom s l r
  | .exact c, l, r => eq3 (l c) (r c)
  | .literal c v .left, l, _ => eq3 (l c) v
  | .literal c v .right, _, r => eq3 (r c) v
  | .literal c v .both, l, r => and3 (eq3 (l c) v) (eq3 (r c) v)
  | .columnsReversed c1 c2 sym, l, r =>
    if sym then and3 (eq3 (l c1) (r c2)) (eq3 (r c1) (l c2)) else eq3 (l c1) (r c2)
  | .levenshtein c k, l, r => cmpLe (strDist (natDist lev) (l c) (r c)) k.toRat
  | .damerauLevenshtein c k, l, r => cmpLe (strDist (natDist damerau) (l c) (r c)) k.toRat
  | .dlOrLev c k, l, r => cmpLe (strDist (natDist damerau) (l c) (r c)) k.toRat
  | .jaroWinkler c t, l, r => cmpGe (strDist (fun a b => some (jaroWinklerSim a b)) (l c) (r c)) t.toRat
  | .jaro c t, l, r => cmpGe (strDist (fun a b => some (jaroSim a b)) (l c) (r c)) t.toRat
  | .jaccard c t, l, r => cmpGe (strDist jaccardSim (l c) (r c)) t.toRat
  | .distanceFunction c fn t hi, l, r =>
    if hi then cmpGe (M.fn fn (l c) (r c)) t.toRat else cmpLe (M.fn fn (l c) (r c)) t.toRat
  | .pairwise c m t, l, r =>
    if m.higherIsMoreSimilar then cmpGe (pairwiseBest m (l c) (r c)) t.toRat
    else cmpLe (pairwiseBest m (l c) (r c)) t.toRat
  | .absoluteTimeDifference c isStr t u fmt, l, r =>
    let c' := if isStr then c.push (.tryParseTimestamp fmt) else c
    cmpLe (absDiff (l c').num? (r c').num?) (t.toRat * u.seconds)
  | .absoluteDateDifference c isStr t u fmt, l, r =>
    let c' := if isStr then c.push (.tryParseDate fmt) else c
    cmpLe (absDiff (l c').num? (r c').num?) (t.toRat * u.seconds)
  | .distanceInKm lat long t nn, l, r =>
    let d := cmpLe (kmOf M (l lat) (r lat) (l long) (r long)) t.toRat
    if nn then
      and3 (some (!(r lat).isNull && !(l lat).isNull && !(l long).isNull && !(r long).isNull)) d
    else d
  | .cosineSimilarity c t, l, r =>
    match l c, r c with
    | .ratArray a, .ratArray b => cmpGe (M.cosine a b) t.toRat
    | _, _ => none
  | .arrayIntersect c n, l, r =>
    match l c, r c with
    | .strArray a, .strArray b => cmpGe (some ((interSize a b : Nat) : Rat)) n.toRat
    | _, _ => none
  | .arraySubset c e, l, r =>
    match l c, r c with
    | .strArray a, .strArray b =>
      let m := min a.length b.length
      let sub : B3 := some (interSize a b == m)
      if e then sub else and3 (some (m != 0)) sub
    | _, _ => none
  | .percentageDifference c t, l, r => cmpLt (pctDiff (l c).num? (r c).num?) t.toRat
  | .absoluteDifference c t, l, r => cmpLe (absDiff (l c).num? (r c).num?) t.toRat
  | .and a b, l, r => and3 (sat M a l r) (sat M b l r)
  | .or a b, l, r => or3 (sat M a l r) (sat M b l r)
  | .not a, l, r => not3 (sat M a l r)

/-- `is_null_level` as the creators set it: `NullLevel` → True; `And`/`Or` → all members are;
`Not` → False. -/
def isNullLevel : LevelKind → Bool
  | .null _ => true
  | .and a b => isNullLevel a && isNullLevel b
  | .or a b => isNullLevel a && isNullLevel b
  | _ => false

/-! ## Comparisons -/

/-- One constructor per comparison creator of comparison_library.py, with the constructor
arguments that reach `create_comparison_levels`. -/
inductive ComparisonKind
  | exactMatch (c : ColExpr)
  | levenshteinAtThresholds (c : ColExpr) (ts : List Q)
  | damerauLevenshteinAtThresholds (c : ColExpr) (ts : List Q)
  | jaccardAtThresholds (c : ColExpr) (ts : List Q)
  | jaroAtThresholds (c : ColExpr) (ts : List Q)
  | jaroWinklerAtThresholds (c : ColExpr) (ts : List Q)
  | distanceFunctionAtThresholds (c : ColExpr) (fn : String) (ts : List Q) (higher : Bool)
  | pairwiseStringDistanceFunctionAtThresholds (c : ColExpr) (m : StrMetric) (ts : List Q)
  | absoluteTimeDifferenceAtThresholds (c : ColExpr) (inputIsString : Bool) (units : List TimeUnit)
      (ts : List Q) (fmt : Option String) (invalidAsNull : Bool)
  | absoluteDateDifferenceAtThresholds (c : ColExpr) (inputIsString : Bool) (units : List TimeUnit)
      (ts : List Q) (fmt : Option String) (invalidAsNull : Bool)
  | arrayIntersectAtSizes (c : ColExpr) (ts : List Q)
  | distanceInKMAtThresholds (lat long : ColExpr) (ts : List Q)
  | cosineSimilarityAtThresholds (c : ColExpr) (ts : List Q)
  | dateOfBirthComparison (c : ColExpr) (inputIsString : Bool) (ts : List Q) (units : List TimeUnit)
      (fmt : Option String) (invalidAsNull : Bool)
  | postcodeComparison (c : ColExpr) (invalidAsNull : Bool) (latLong : Option (ColExpr × ColExpr)) (kms : List Q)
  | emailComparison (c : ColExpr)
  | nameComparison (c : ColExpr) (ts : List Q) (dmeta : Option ColExpr)
  | forenameSurnameComparison (f s : ColExpr) (ts : List Q) (concat : Option ColExpr)
  | customComparison (levels : List LevelKind)
  deriving DecidableEq, Repr

def sectorRegex := "^[A-Za-z]{1,2}[0-9][A-Za-z0-9]? [0-9]"
def districtRegex := "^[A-Za-z]{1,2}[0-9][A-Za-z0-9]?"
def areaRegex := "^[A-Za-z]{1,2}"
def validPostcodeRegex := "^[A-Za-z]{1,2}[0-9][A-Za-z0-9]? [0-9][A-Za-z]{2}$"
def usernameRegex := "^[^@]+"

/-- `[Null, Exact] ++ [F t | t ∈ ts] ++ [Else]` — the shape of most `…AtThresholds` creators. -/
def stdLevels (c : ColExpr) (f : Q → LevelKind) (ts : List Q) : List LevelKind :=
  [.null c, .exact c] ++ ts.map f ++ [.else_]

/-- `AbsoluteTimeDifferenceAtThresholds.create_comparison_levels` (and the Date subclass via `mk`/`parse`). -/
def timeLevels (mk : ColExpr → Bool → Q → TimeUnit → Option String → LevelKind) (parse : Option String → Op)
    (c : ColExpr) (isStr : Bool) (units : List TimeUnit) (ts : List Q) (fmt : Option String) (invalidAsNull : Bool) :
    List LevelKind :=
  -- `self.invalid_dates_as_null = invalid_dates_as_null if input_is_string else False`
  let nullCol := if isStr && invalidAsNull then c.push (parse fmt) else c
  [.null nullCol, .exact c] ++ (ts.zip units).map (fun p => mk c isStr p.1 p.2 fmt) ++ [.else_]

/-- Every `create_comparison_levels`, in code order; thresholds are used in the given order. -/
def levelsOf : ComparisonKind → List LevelKind
  | .exactMatch c => [.null c, .exact c, .else_]
  | .levenshteinAtThresholds c ts => stdLevels c (.levenshtein c) ts
  | .damerauLevenshteinAtThresholds c ts => stdLevels c (.damerauLevenshtein c) ts
  | .jaccardAtThresholds c ts => stdLevels c (.jaccard c) ts
  | .jaroAtThresholds c ts => stdLevels c (.jaro c) ts
  | .jaroWinklerAtThresholds c ts => stdLevels c (.jaroWinkler c) ts
  | .distanceFunctionAtThresholds c fn ts hi => stdLevels c (fun t => .distanceFunction c fn t hi) ts
  | .pairwiseStringDistanceFunctionAtThresholds c m ts =>
    [.null c, .arrayIntersect c ⟨1, 1⟩] ++ ts.map (.pairwise c m) ++ [.else_]
  | .absoluteTimeDifferenceAtThresholds c isStr units ts fmt inv =>
    timeLevels .absoluteTimeDifference .tryParseTimestamp c isStr units ts fmt inv
  | .absoluteDateDifferenceAtThresholds c isStr units ts fmt inv =>
    timeLevels .absoluteDateDifference .tryParseDate c isStr units ts fmt inv
  | .arrayIntersectAtSizes c ts => [.null c] ++ ts.map (.arrayIntersect c) ++ [.else_]
  | .distanceInKMAtThresholds lat long ts =>
    [.or (.null lat) (.null long)] ++ ts.map (fun t => .distanceInKm lat long t false) ++ [.else_]
  | .cosineSimilarityAtThresholds c ts => [.null c] ++ ts.map (.cosineSimilarity c) ++ [.else_]
  | .dateOfBirthComparison c isStr ts units fmt inv =>
    let nullCol := if inv && isStr then c.push (.tryParseDate fmt) else c
    let asString := if isStr then c else c.push .castToString
    [.null nullCol, .exact c, .dlOrLev asString ⟨1, 1⟩]
      ++ (ts.zip units).map (fun p => .absoluteDateDifference c isStr p.1 p.2 fmt) ++ [.else_]
  | .postcodeComparison c inv latLong kms =>
    let nullCol := if inv then c.push (.regexExtract validPostcodeRegex 0) else c
    let sector := c.push (.regexExtract sectorRegex 0)
    let district := c.push (.regexExtract districtRegex 0)
    let area := c.push (.regexExtract areaRegex 0)
    match latLong, kms with
    | some (lat, long), k :: ks =>
      [.null nullCol, .exact c, .exact sector] ++ (k :: ks).map (fun t => .distanceInKm lat long t false) ++ [.else_]
    | _, _ => [.null nullCol, .exact c, .exact sector, .exact district, .exact area, .else_]
  | .emailComparison c =>
    let user := c.push (.regexExtract usernameRegex 0)
    [.null c, .exact c, .exact user, .jaroWinkler c ⟨22, 25⟩, .jaroWinkler user ⟨22, 25⟩, .else_]
  | .nameComparison c ts dmeta =>
    [.null c, .exact c]
      ++ (ts.filter (fun t => decide ((22 : Rat) / 25 ≤ t.toRat))).map (.jaroWinkler c)
      ++ (match dmeta with | some d => [.arrayIntersect d ⟨1, 1⟩] | none => [])
      ++ (ts.filter (fun t => !decide ((22 : Rat) / 25 ≤ t.toRat))).map (.jaroWinkler c)
      ++ [.else_]
  | .forenameSurnameComparison f s ts concat =>
    [.and (.null f) (.null s),
     (match concat with | some cc => .exact cc | none => .and (.exact f) (.exact s)),
     .columnsReversed f s true]
      ++ ts.map (fun t => .and (.jaroWinkler f t) (.jaroWinkler s t))
      ++ [.exact s, .exact f, .else_]
  | .customComparison levels => levels

/-- `Comparison.__init__` numbering: null levels get -1, the others count down from
(#non-null levels − 1). -/
def gammaValuesFrom : List LevelKind → Int → List Int
  | [], _ => []
  | x :: xs, counter =>
    if isNullLevel x then (-1) :: gammaValuesFrom xs counter
    else counter :: gammaValuesFrom xs (counter - 1)

def gammaValues (levels : List LevelKind) : List Int :=
  gammaValuesFrom levels (((levels.filter (fun x => !isNullLevel x)).length : Nat) - 1 : Int)

/-- `CASE WHEN c₀ THEN … WHEN c₁ THEN … ELSE … END`: index of the first level whose condition is TRUE. -/
def firstTrue (M : Metrics) (l r : Env) : List LevelKind → Option Nat
  | [] => none
  | x :: xs => if isTrue (sat M x l r) then some 0 else (firstTrue M l r xs).map (· + 1)

/-- The comparison vector value of a pair (NULL when no branch fires and there is no ELSE). -/
def gammaOf (M : Metrics) (levels : List LevelKind) (l r : Env) : Option Int :=
  (firstTrue M l r levels).bind (fun i => (gammaValues levels)[i]?)

/-- `i` is the level the pair is assigned to: its condition is TRUE and no earlier one is. -/
def AssignedAt (M : Metrics) (levels : List LevelKind) (l r : Env) (i : Nat) : Prop :=
  (∃ x, levels[i]? = some x ∧ isTrue (sat M x l r) = true) ∧
    ∀ j x, j < i → levels[j]? = some x → isTrue (sat M x l r) = false

/-! ## Well-formedness of a level list -/

/-- Same-family levels on the same column(s): is `a` at least as strict as `b`?
`true` for unrelated levels. Distances: smaller threshold first; similarities / sizes: larger first. -/
def stricterOrUnrelated : LevelKind → LevelKind → Bool
  | .levenshtein c k, b => match b with
    | .levenshtein c' k' => c != c' || decide (k.toRat ≤ k'.toRat) | _ => true
  | .damerauLevenshtein c k, b => match b with
    | .damerauLevenshtein c' k' => c != c' || decide (k.toRat ≤ k'.toRat) | _ => true
  | .jaroWinkler c k, b => match b with
    | .jaroWinkler c' k' => c != c' || decide (k'.toRat ≤ k.toRat) | _ => true
  | .jaro c k, b => match b with
    | .jaro c' k' => c != c' || decide (k'.toRat ≤ k.toRat) | _ => true
  | .jaccard c k, b => match b with
    | .jaccard c' k' => c != c' || decide (k'.toRat ≤ k.toRat) | _ => true
  | .distanceFunction c fn k hi, b => match b with
    | .distanceFunction c' fn' k' hi' =>
      c != c' || fn != fn' || hi != hi' || (if hi then decide (k'.toRat ≤ k.toRat) else decide (k.toRat ≤ k'.toRat))
    | _ => true
  | .pairwise c m k, b => match b with
    | .pairwise c' m' k' =>
      c != c' || m != m' || (if m.higherIsMoreSimilar then decide (k'.toRat ≤ k.toRat) else decide (k.toRat ≤ k'.toRat))
    | _ => true
  | .absoluteTimeDifference c s k u f, b => match b with
    | .absoluteTimeDifference c' s' k' u' f' =>
      c != c' || s != s' || f != f' || decide (k.toRat * u.seconds ≤ k'.toRat * u'.seconds)
    | _ => true
  | .absoluteDateDifference c s k u f, b => match b with
    | .absoluteDateDifference c' s' k' u' f' =>
      c != c' || s != s' || f != f' || decide (k.toRat * u.seconds ≤ k'.toRat * u'.seconds)
    | _ => true
  | .distanceInKm la lo k n, b => match b with
    | .distanceInKm la' lo' k' n' => la != la' || lo != lo' || n != n' || decide (k.toRat ≤ k'.toRat) | _ => true
  | .cosineSimilarity c k, b => match b with
    | .cosineSimilarity c' k' => c != c' || decide (k'.toRat ≤ k.toRat) | _ => true
  | .arrayIntersect c k, b => match b with
    | .arrayIntersect c' k' => c != c' || decide (k'.toRat ≤ k.toRat) | _ => true
  | .percentageDifference c k, b => match b with
    | .percentageDifference c' k' => c != c' || decide (k.toRat ≤ k'.toRat) | _ => true
  | .absoluteDifference c k, b => match b with
    | .absoluteDifference c' k' => c != c' || decide (k.toRat ≤ k'.toRat) | _ => true
  | .and a b, x => match x with
    | .and a' b' => stricterOrUnrelated a a' && stricterOrUnrelated b b' | _ => true
  | _, _ => true

/-- Is `b` a fuzzy (threshold) level on column `c`? -/
def fuzzyOn (c : ColExpr) : LevelKind → Bool
  | .levenshtein c' _ | .damerauLevenshtein c' _ | .dlOrLev c' _ | .jaroWinkler c' _ | .jaro c' _
  | .jaccard c' _ | .distanceFunction c' _ _ _ | .absoluteTimeDifference c' _ _ _ _
  | .absoluteDateDifference c' _ _ _ _ | .percentageDifference c' _ | .absoluteDifference c' _ => c == c'
  | _ => false

/-- `a` before `b` is fine unless `a` is a fuzzy level on a column and `b` the exact match on it. -/
def notFuzzyBeforeExact (a : LevelKind) : LevelKind → Bool
  | .exact c => !fuzzyOn c a
  | _ => true

/-- Earlier levels are at least as strict as later ones of the same family, and an exact match
never follows a fuzzy level on the same column. -/
def orderedB (levels : List LevelKind) : Bool :=
  decide (levels.Pairwise (fun a b => (stricterOrUnrelated a b && notFuzzyBeforeExact a b) = true))

/-- The null level is first and no later level is a null level. -/
def nullFirstB : List LevelKind → Bool
  | x :: xs => isNullLevel x && xs.all (fun y => !isNullLevel y)
  | [] => false

/-- ELSE is last and nowhere else. -/
def elseLastB (levels : List LevelKind) : Bool :=
  levels.getLast? == some .else_ && levels.dropLast.all (fun y => y != .else_)

def wfB (levels : List LevelKind) : Bool := nullFirstB levels && elseLastB levels && orderedB levels

/-- Null level first (and nowhere else), ELSE last (and nowhere else), levels ordered. -/
def WellFormed (levels : List LevelKind) : Prop := wfB levels = true

/-- Thresholds listed from strict to loose: ascending for distances, descending for similarities. -/
def ascendingB (ts : List Q) : Bool := decide (ts.Pairwise (fun a b => a.toRat ≤ b.toRat))
def descendingB (ts : List Q) : Bool := decide (ts.Pairwise (fun a b => b.toRat ≤ a.toRat))
/-- (threshold, unit) pairs ascending in seconds. -/
def ascendingSecondsB (ps : List (Q × TimeUnit)) : Bool :=
  decide (ps.Pairwise (fun a b => a.1.toRat * a.2.seconds ≤ b.1.toRat * b.2.seconds))

/-- What the creators silently require of their arguments for the levels to be ordered: the library
uses the threshold list as given (no sorting, no validation). -/
def argsOrderedB : ComparisonKind → Bool
  | .exactMatch _ => true
  | .levenshteinAtThresholds _ ts | .damerauLevenshteinAtThresholds _ ts => ascendingB ts
  | .jaccardAtThresholds _ ts | .jaroAtThresholds _ ts | .jaroWinklerAtThresholds _ ts => descendingB ts
  | .distanceFunctionAtThresholds _ _ ts hi => if hi then descendingB ts else ascendingB ts
  | .pairwiseStringDistanceFunctionAtThresholds _ m ts =>
    if m.higherIsMoreSimilar then descendingB ts else ascendingB ts
  | .absoluteTimeDifferenceAtThresholds _ _ units ts _ _ => ascendingSecondsB (ts.zip units)
  | .absoluteDateDifferenceAtThresholds _ _ units ts _ _ => ascendingSecondsB (ts.zip units)
  | .arrayIntersectAtSizes _ ts => descendingB ts
  | .distanceInKMAtThresholds _ _ ts => ascendingB ts
  | .cosineSimilarityAtThresholds _ ts => descendingB ts
  | .dateOfBirthComparison _ _ ts units _ _ => ascendingSecondsB (ts.zip units)
  | .postcodeComparison _ _ _ kms => ascendingB kms
  | .emailComparison _ => true
  | .nameComparison _ ts _ => descendingB ts
  | .forenameSurnameComparison _ _ ts _ => descendingB ts
  | .customComparison levels => wfB levels

def ArgsOrdered (k : ComparisonKind) : Prop := argsOrderedB k = true

/-- `case when x > 1 then 1 when x < -1 then -1 else x end` of `great_circle_distance_km_sql`. -/
def clip {α : Type} [LT α] [DecidableLT α] [OfNat α 1] [Neg α] (x : α) : α :=
  if x > 1 then 1 else if x < -1 then -1 else x

/-- A threshold family: the level as a function of its threshold alone. -/
inductive Family
  | levenshtein (c : ColExpr) | damerauLevenshtein (c : ColExpr) | dlOrLev (c : ColExpr)
  | jaroWinkler (c : ColExpr) | jaro (c : ColExpr) | jaccard (c : ColExpr)
  | distanceFunction (c : ColExpr) (fn : String) (hi : Bool)
  | pairwise (c : ColExpr) (m : StrMetric)
  | absoluteTimeDifference (c : ColExpr) (isStr : Bool) (u : TimeUnit) (fmt : Option String)
  | absoluteDateDifference (c : ColExpr) (isStr : Bool) (u : TimeUnit) (fmt : Option String)
  | distanceInKm (lat long : ColExpr) (notNull : Bool)
  | cosineSimilarity (c : ColExpr) | arrayIntersect (c : ColExpr)
  | percentageDifference (c : ColExpr) | absoluteDifference (c : ColExpr)

def Family.level : Family → Q → LevelKind
  | .levenshtein c, k => .levenshtein c k
  | .damerauLevenshtein c, k => .damerauLevenshtein c k
  | .dlOrLev c, k => .dlOrLev c k
  | .jaroWinkler c, k => .jaroWinkler c k
  | .jaro c, k => .jaro c k
  | .jaccard c, k => .jaccard c k
  | .distanceFunction c fn hi, k => .distanceFunction c fn k hi
  | .pairwise c m, k => .pairwise c m k
  | .absoluteTimeDifference c s u f, k => .absoluteTimeDifference c s k u f
  | .absoluteDateDifference c s u f, k => .absoluteDateDifference c s k u f
  | .distanceInKm la lo nn, k => .distanceInKm la lo k nn
  | .cosineSimilarity c, k => .cosineSimilarity c k
  | .arrayIntersect c, k => .arrayIntersect c k
  | .percentageDifference c, k => .percentageDifference c k
  | .absoluteDifference c, k => .absoluteDifference c k

/-- `true`: a larger threshold is looser (distances, `<=`/`<`); `false`: a smaller one is (similarities, `>=`). -/
def Family.ascending : Family → Bool
  | .levenshtein _ | .damerauLevenshtein _ | .dlOrLev _ => true
  | .jaroWinkler _ | .jaro _ | .jaccard _ => false
  | .distanceFunction _ _ hi => !hi
  | .pairwise _ m => !m.higherIsMoreSimilar
  | .absoluteTimeDifference .. | .absoluteDateDifference .. | .distanceInKm .. => true
  | .cosineSimilarity _ | .arrayIntersect _ => false
  | .percentageDifference _ | .absoluteDifference _ => true

end SplinkVerif.Levels
