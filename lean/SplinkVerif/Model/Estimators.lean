import SplinkVerif.Generated.Arith
/-!
# Model of the direct estimators

* `levelCounts`/`levelFreq` — `compute_new_parameters_sql` + `compute_proportions_for_new_parameters_sql`
  when `match_probability` is the constant 0 (`estimate_u.py`) or 1 (`m_training.py`, `m_from_labels.py`):
  `count(γ = v) / count(γ ≠ −1)`; a level that never occurs gets no record (`KeyError` ⇒ "not observed").
* `sampleDedupe`/`sampleLinkOnly` — the sampling arithmetic of `estimate_u_values`, built on the
  **generated** `_rows_needed_for_n_pairs` / `_proportion_sample_size_link_only` and the two clamps that follow them.
* `priorEstimate` — `estimate_probability_two_random_records_match`: the recall guard and the formula,
  on the cumulative count of the deterministic rules and the generated `calculate_cartesian`.
* `lowerIdLeft` — `lower_id_on_lhs.py`: the record with the lower composite id goes to the left.
-/
namespace SplinkVerif.Estimators
open SplinkVerif

/-- `count(*) … group by gamma_c` at value `v` over the comparison-vector rows (`none` = NULL γ). -/
def levelCount (gammas : List (Option Int)) (v : Int) : Nat :=
  (gammas.filter fun g => g == some v).length

/-- Rows that survive `where comparison_vector_value != -1` (for a NULL γ the predicate is NULL, so
the row is dropped as well). -/
def nonNullCount (gammas : List (Option Int)) : Nat :=
  (gammas.filter fun g => match g with | some v => v != -1 | none => false).length

/-- The estimate for level value `v` as a fraction `(numerator, denominator)`; `none` when the level
was never observed (no row in the GROUP BY ⇒ `KeyError` ⇒ `LEVEL_NOT_OBSERVED`). -/
def levelFreq (gammas : List (Option Int)) (v : Int) : Option (Nat × Nat) :=
  if v == -1 then none
  else if levelCount gammas v == 0 then none
  else some (levelCount gammas v, nonNullCount gammas)

variable {α : Type} [ANum α]

/-- `estimate_u_values`, `dedupe_only` / `link_and_dedupe`: `(proportion, sample_size)` after the clamps. -/
def sampleDedupe (maxPairs totalNodes : α) : Option (α × α) :=
  match Gen._rows_needed_for_n_pairs maxPairs with
  | none => none
  | some sampleSize =>
    let proportion := ANum.div sampleSize totalNodes
    let proportion := if ANum.le (ANum.ofNat 1) proportion then ANum.ofNat 1 else proportion
    let sampleSize := if ANum.lt totalNodes sampleSize then totalNodes else sampleSize
    some (proportion, sampleSize)

/-- `estimate_u_values`, `link_only`. -/
def sampleLinkOnly (frameCounts : List α) (maxPairs : α) : Option (α × α) :=
  match Gen._proportion_sample_size_link_only frameCounts maxPairs with
  | none => none
  | some (proportion, sampleSize) =>
    let totalNodes := ANum.sum frameCounts
    let proportion := if ANum.le (ANum.ofNat 1) proportion then ANum.ofNat 1 else proportion
    let sampleSize := if ANum.lt totalNodes sampleSize then totalNodes else sampleSize
    some (proportion, sampleSize)

/-- `estimate_probability_two_random_records_match`: `none` = the call is rejected
(`observed > cartesian * recall`), else `observed / recall / cartesian`. -/
def priorEstimate (observed cartesian recall : α) : Option α :=
  if ANum.lt (ANum.mul cartesian recall) observed then none
  else some (ANum.div (ANum.div observed recall) cartesian)

/-- `lower_id_to_left_hand_side` on a pair of record ids with composite keys `key`. -/
def lowerIdLeft (key : Nat → Nat) (p : Nat × Nat) : Nat × Nat :=
  if key p.1 < key p.2 then p else (p.2, p.1)

end SplinkVerif.Estimators
