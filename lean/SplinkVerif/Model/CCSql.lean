import SplinkVerif.Model.Rel
import SplinkVerif.Generated.CCSql
/-!
# `solve_connected_components` at the level of the SQL it emits

The statements are **not** written here: they are the terms of `Generated/CCSql.lean`, regenerated from the running
code by the T-sql translator on every run.  What is hand-written is only the Python control flow around them
(`splink/internals/connected_components.py:solve_connected_components`): which tables a pass reads and writes, the
`while needs_updating_count > 0` loop with its forced first pass, and the final `UNION ALL` over the stable tables
followed by the last representatives table.

`Lemmas/CCSql.lean` proves that this pipeline computes exactly `CC.cluster` (the functional model all C05/C11 theorems
are about), so those theorems are statements about the regenerated SQL.
-/
namespace SplinkVerif.CCSql
open SplinkVerif.Rel

/-- Tables alive between two passes of the loop. -/
structure LoopSt where
  /-- `prev_representatives_table` (node_id, representative, needs_updating) -/
  repr : List Row
  /-- `filtered_neighbours` (node_id, neighbour) -/
  nbrs : List Row
  /-- `converged_clusters_tables`, oldest first -/
  stables : List (List Row)

def emptyDb : Db := fun _ => []

/-- The registered input tables: `nodes_in (nid)`, `edges_in (el, er, match_probability)`. -/
def baseDb (nodes edges : List Row) : Db :=
  Db.set (Db.set emptyDb "nodes_in" nodes) "edges_in" edges

/-- Everything before the loop. -/
def init (nodes edges : List Row) (thr : Option Val) : LoopSt :=
  let db := runStmts (baseDb nodes edges) (Gen.CCSql.preamble thr)
  { repr := db "__splink__df_representatives", nbrs := db "__splink__df_neighbours", stables := [] }

/-- The tables a pass sees, after running the statements of one pass. -/
def passDb (s : LoopSt) : Db :=
  runStmts (Db.set (Db.set emptyDb "reprPrev" s.repr) "nbrsPrev" s.nbrs) Gen.CCSql.body

/-- `root_rows[0]["count_of_nodes_needing_updating"]` -/
def countOf (rows : List Row) : Nat :=
  match rows with
  | [[.int c]] => c.toNat
  | _ => 0

/-- One pass of the `while` body: new state and `needs_updating_count`. -/
def pass (s : LoopSt) : LoopSt × Nat :=
  let db := passDb s
  ({ repr := db "reprNext", nbrs := db "nbrsNext", stables := s.stables ++ [db "stable"] },
   countOf (db "__splink__df_root_rows"))

/-- `while needs_updating_count > 0` after a pass has produced `(s, count)`. -/
def loop : Nat → LoopSt × Nat → LoopSt
  | 0, sc => sc.1
  | fuel + 1, sc => if sc.2 > 0 then loop fuel (pass sc.1) else sc.1

/-- Per-pass counts as logged (pass 1 first). -/
def loopTrace : Nat → LoopSt × Nat → List Nat
  | 0, _ => []
  | fuel + 1, sc => if sc.2 > 0 then (pass sc.1).2 :: loopTrace fuel (pass sc.1) else []

/-- `__splink__clustering_output_final`: one `finalTerm` per stable table, then the last representatives table. -/
def output (s : LoopSt) : List Row :=
  (s.stables ++ [s.repr]).flatMap fun t => Gen.CCSql.finalTerm.eval (Db.set emptyDb "T" t)

/-- The whole function; `fuel` bounds the number of passes after the forced first one. -/
def cluster (nodes edges : List Row) (thr : Option Val) (fuel : Nat) : List Row :=
  output (loop fuel (pass (init nodes edges thr)))

def trace (nodes edges : List Row) (thr : Option Val) (fuel : Nat) : List Nat :=
  let p := pass (init nodes edges thr)
  p.2 :: loopTrace fuel p

/-- Encoding of the harness's canonical input: node ids are ranks `0..n-1`. -/
def nodeRows (n : Nat) : List Row := (List.range n).map fun (i : Nat) => [Val.int (i : Int)]

/-- An edge `(l, r, key)`: `key` is an integer order key of the match probability. -/
def edgeRows (edges : List (Nat × Nat × Int)) : List Row :=
  edges.map fun e => [Val.int (e.1 : Int), Val.int (e.2.1 : Int), Val.int e.2.2]

end SplinkVerif.CCSql
