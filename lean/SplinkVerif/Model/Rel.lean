/-!
# A small relational algebra with SQL semantics (no Mathlib)

Target language of the **T-sql** translator (`harness/translate/tsql.py`): the SQL
statements that Splink's fixed-template modules (connected components, …) actually
emit are captured on every run, parsed with sqlglot and written as terms of `Rel`
into `Generated/*Sql.lean`.  Theorems in `Lemmas/*Sql.lean` then relate the
semantics `Rel.eval` of the *regenerated* statements to the hand-written models.

* `Val`   – SQL values: NULL, integers (ids are ranks, numbers that are only compared
            are order keys), booleans, strings.
* `Expr`  – scalar expressions over a row, three-valued logic, column references are
            positions (the translator resolves names against the schema).
* `Rel`   – tables, projection, selection, inner/left join, `UNION [ALL]`, `DISTINCT`,
            `GROUP BY` with aggregates, `[NOT] IN (subquery)` as a row filter, window aggregates,
            `row_number() OVER (PARTITION BY … ORDER BY …)`.
* `Rel.eval` – bag semantics as lists (row order is unspecified in SQL: statements
            about results are about membership, multiplicity or permutations).
-/
namespace SplinkVerif.Rel

inductive Val where
  | null
  | int (i : Int)
  | bool (b : Bool)
  | str (s : String)
  /-- exact number produced by arithmetic (`1.0 * x / y`, `sum(x) / 2.0`); engines compute these in floating point -/
  | rat (q : Rat)
deriving DecidableEq, Repr, Inhabited

abbrev Row := List Val

/-- A database: table name ↦ rows. -/
abbrev Db := String → List Row

inductive Cmp where
  | eq | ne | lt | le | gt | ge
deriving DecidableEq, Repr

/-- Order on values of one type (the translator only compares like with like). -/
def Val.lt : Val → Val → Bool
  | .int a, .int b => a < b
  | .str a, .str b => a < b
  | .bool a, .bool b => !a && b
  | .rat a, .rat b => a < b
  | _, _ => false

/-- Numeric value of an integer or exact number. -/
def Val.toRat? : Val → Option Rat
  | .int i => some (i : Rat)
  | .rat q => some q
  | _ => none

inductive Arith where
  | add | sub | mul | div
deriving DecidableEq, Repr

/-- SQL arithmetic: NULL if an operand is NULL; integers stay integers under `+ - *`; `/` is exact division of the
numeric values (the translator admits `/` only where an operand is a non-integer number, so that no dialect divides
integers); division by zero is NULL. -/
def Arith.eval (op : Arith) (a b : Val) : Val :=
  match op, a, b with
  | .add, .int x, .int y => .int (x + y)
  | .sub, .int x, .int y => .int (x - y)
  | .mul, .int x, .int y => .int (x * y)
  | op, a, b =>
    match a.toRat?, b.toRat? with
    | some x, some y =>
      match op with
      | .add => .rat (x + y)
      | .sub => .rat (x - y)
      | .mul => .rat (x * y)
      | .div => if y = 0 then .null else .rat (x / y)
    | _, _ => .null

/-- SQL comparison: NULL if an operand is NULL. -/
def Cmp.eval (c : Cmp) (a b : Val) : Val :=
  match a, b with
  | .null, _ => .null
  | _, .null => .null
  | a, b =>
    .bool (match c with
      | .eq => a == b
      | .ne => a != b
      | .lt => Val.lt a b
      | .le => Val.lt a b || a == b
      | .gt => Val.lt b a
      | .ge => Val.lt b a || a == b)

def and3 : Val → Val → Val
  | .bool false, _ => .bool false
  | _, .bool false => .bool false
  | .bool true, .bool true => .bool true
  | _, _ => .null

def or3 : Val → Val → Val
  | .bool true, _ => .bool true
  | _, .bool true => .bool true
  | .bool false, .bool false => .bool false
  | _, _ => .null

def not3 : Val → Val
  | .bool b => .bool (!b)
  | _ => .null

/-- The text an operand of `||` contributes: strings as they are, integers in decimal (the engines cast the integer
operand of `||` to text; the translator admits `||` only between string- and integer-typed operands). -/
def Val.toText? : Val → Option String
  | .str s => some s
  | .int i => some (toString i)
  | _ => none

/-- SQL string concatenation `a || b`: NULL if an operand is NULL. -/
def Val.concat (a b : Val) : Val :=
  match a, b with
  | .null, _ => .null
  | _, .null => .null
  | a, b =>
    match a.toText?, b.toText? with
    | some x, some y => .str (x ++ y)
    | _, _ => .null

/-- `log2(x)` of the engines: an UNINTERPRETED function of the value.  The model's numbers are exact rationals and `log2` of a rational
is in general not one, so no definition is given (`opaque`: nothing about it can be unfolded, `decide`/`rfl` cannot evaluate it).
Theorems that mention it hold for every interpretation; all they can use is that equal arguments give equal results. -/
opaque Val.log2 : Val → Val

inductive Expr where
  | col (i : Nat)
  | lit (v : Val)
  | cmp (c : Cmp) (a b : Expr)
  | and (a b : Expr)
  | or (a b : Expr)
  | not (a : Expr)
  | isNull (a : Expr)
  | coalesce (a b : Expr)
  | arith (op : Arith) (a b : Expr)
  /-- `CASE WHEN c THEN t ELSE e END` (several WHEN branches nest in `e`) -/
  | case (c t e : Expr)
  /-- `cast(a as float)` / `1.0 * a`: the exact number of an integer -/
  | toRat (a : Expr)
  /-- `a || b` (string concatenation, NULL-propagating; an integer operand contributes its decimal text) -/
  | concat (a b : Expr)
  /-- `cast(a as int)` of a boolean: TRUE ↦ 1, FALSE ↦ 0, NULL ↦ NULL (the translator admits it on booleans only; an
  integer stays as it is) -/
  | boolToInt (a : Expr)
  /-- `log2(a)`: uninterpreted (`Val.log2`) -/
  | log2 (a : Expr)
deriving Repr, Inhabited

def Expr.eval (row : Row) : Expr → Val
  | .col i => row.getD i .null
  | .lit v => v
  | .cmp c a b => c.eval (a.eval row) (b.eval row)
  | .and a b => and3 (a.eval row) (b.eval row)
  | .or a b => or3 (a.eval row) (b.eval row)
  | .not a => not3 (a.eval row)
  | .isNull a => .bool (a.eval row == .null)
  | .coalesce a b => match a.eval row with
    | .null => b.eval row
    | v => v
  | .arith op a b => op.eval (a.eval row) (b.eval row)
  | .case c t e => if c.eval row == .bool true then t.eval row else e.eval row
  | .toRat a => match a.eval row with
    | .int i => .rat (i : Rat)
    | v => v
  | .concat a b => Val.concat (a.eval row) (b.eval row)
  | .boolToInt a => match a.eval row with
    | .bool b => .int (if b then 1 else 0)
    | .int i => .int i
    | _ => .null
  | .log2 a => Val.log2 (a.eval row)

/-- `WHERE` / `ON` keep a row iff the predicate is TRUE. -/
def Expr.holds (e : Expr) (row : Row) : Bool := e.eval row == .bool true

inductive Agg where
  | min (e : Expr)
  | max (e : Expr)
  | countStar
  | count (e : Expr)
  | sum (e : Expr)
  /-- `COUNT(*) FILTER (WHERE c)` -/
  | countIf (c : Expr)
deriving Repr, Inhabited

/-- `min` of the non-NULL values; NULL for none. -/
def minVals : List Val → Val
  | [] => .null
  | v :: vs =>
    match v, minVals vs with
    | .null, m => m
    | v, .null => v
    | v, m => if Val.lt m v then m else v

def maxVals : List Val → Val
  | [] => .null
  | v :: vs =>
    match v, maxVals vs with
    | .null, m => m
    | v, .null => v
    | v, m => if Val.lt v m then m else v

/-- `sum` of the non-NULL values; NULL for none. -/
def sumVals : List Val → Val
  | [] => .null
  | v :: vs =>
    match v, sumVals vs with
    | .null, s => s
    | v, .null => v
    | v, s => Arith.add.eval v s

def Agg.eval (rows : List Row) : Agg → Val
  | .min e => minVals (rows.map e.eval)
  | .max e => maxVals (rows.map e.eval)
  | .countStar => .int rows.length
  | .count e => .int ((rows.filter fun r => e.eval r != .null).length)
  | .sum e => sumVals (rows.map e.eval)
  | .countIf c => .int ((rows.filter c.holds).length)

/-- `x IN (v₁, …)` with SQL's NULL semantics. -/
def inVals (x : Val) (vs : List Val) : Val :=
  if vs.isEmpty then .bool false
  else if x == .null then .null
  else if vs.contains x then .bool true
  else if vs.contains .null then .null
  else .bool false

inductive Rel where
  | table (name : String)
  /-- `SELECT e₁, …, eₖ FROM r` -/
  | project (es : List Expr) (r : Rel)
  /-- `… WHERE p` -/
  | filter (p : Expr) (r : Rel)
  /-- `a [LEFT] JOIN b ON p`; rows are `ra ++ rb`; `bw` = number of columns of `b` (NULL padding of a left join). -/
  | join (left : Bool) (on : Expr) (a b : Rel) (bw : Nat)
  | union (all : Bool) (a b : Rel)
  | distinct (r : Rel)
  /-- `SELECT keys…, aggs… FROM r GROUP BY keys…`; with no keys exactly one row (global aggregate). -/
  | groupBy (keys : List Expr) (aggs : List Agg) (r : Rel)
  /-- `… FROM r WHERE e [NOT] IN (SELECT first column FROM sub)` -/
  | whereIn (neg : Bool) (e : Expr) (sub : Rel) (r : Rel)
  /-- `SELECT *, agg OVER (PARTITION BY part…) FROM r`: one more column, the aggregate over the rows of the same partition -/
  | window (part : List Expr) (agg : Agg) (r : Rel)
  /-- `SELECT *, agg OVER (ORDER BY key [DESC]) FROM r` with the default frame (RANGE … CURRENT ROW: peers included):
  the aggregate over the rows whose key is `≤` (`≥` when `desc`) this row's key -/
  | windowCum (key : Expr) (desc : Bool) (agg : Agg) (r : Rel)
  /-- `SELECT *, row_number() OVER (PARTITION BY part… ORDER BY key [DESC]) FROM r`: one more column, **1 + the number of
  rows of the same partition that come strictly before this row in the ORDER BY** (key strictly greater when `desc`,
  strictly smaller otherwise; partitions compare NULLs as equal, like `GROUP BY`).  This is a function of the bag of rows
  (row order of `r` does not matter) and it IS SQL's `row_number()` whenever the order keys are non-NULL and pairwise
  distinct within every partition: then the rows of a partition have exactly one admissible numbering.  With tied keys
  (or NULL keys, whose place in the order is engine-specific) SQL leaves the numbering of the peers open — any
  numbering that extends the order is admissible, and engines pick one depending on physical row order and threads; here
  all peers get the number of the first of them (SQL's `rank()`), which for the test `= 1` is the union of all admissible
  outcomes (an over-approximation).  Theorems that use this construct as `row_number()` therefore carry an explicit
  tie-freeness hypothesis. -/
  | rowNumber (part : List Expr) (key : Expr) (desc : Bool) (r : Rel)
deriving Repr, Inhabited

def Rel.eval (db : Db) : Rel → List Row
  | .table n => db n
  | .project es r => (r.eval db).map fun row => es.map (·.eval row)
  | .filter p r => (r.eval db).filter p.holds
  | .join left on a b bw =>
    let rb := b.eval db
    (a.eval db).flatMap fun ra =>
      let ms := (rb.filter fun x => on.holds (ra ++ x)).map (ra ++ ·)
      if left && ms.isEmpty then [ra ++ List.replicate bw .null] else ms
  | .union all a b =>
    if all then a.eval db ++ b.eval db else (a.eval db ++ b.eval db).eraseDups
  | .distinct r => (r.eval db).eraseDups
  | .groupBy keys aggs r =>
    let rows := r.eval db
    let keyOf := fun (row : Row) => keys.map (·.eval row)
    if keys.isEmpty then [aggs.map (·.eval rows)]
    else (rows.map keyOf).eraseDups.map fun k =>
      k ++ aggs.map (·.eval (rows.filter fun row => keyOf row == k))
  | .whereIn neg e sub r =>
    let vs := (sub.eval db).map fun row => row.getD 0 .null
    (r.eval db).filter fun row =>
      let v := inVals (e.eval row) vs
      (if neg then not3 v else v) == .bool true
  | .window part agg r =>
    let rows := r.eval db
    let keyOf := fun (row : Row) => part.map (·.eval row)
    rows.map fun row => row ++ [agg.eval (rows.filter fun x => keyOf x == keyOf row)]
  | .windowCum key desc agg r =>
    let rows := r.eval db
    rows.map fun row =>
      let k := key.eval row
      row ++ [agg.eval (rows.filter fun x =>
        let kx := key.eval x
        (if desc then Cmp.ge.eval kx k else Cmp.le.eval kx k) == .bool true)]
  | .rowNumber part key desc r =>
    let rows := r.eval db
    let keyOf := fun (row : Row) => part.map (·.eval row)
    rows.map fun row =>
      let k := key.eval row
      row ++ [.int (1 + ((rows.filter fun x =>
        keyOf x == keyOf row &&
          (if desc then Cmp.gt.eval (key.eval x) k else Cmp.lt.eval (key.eval x) k) == .bool true).length : Nat))]

/-- One CTE / pipeline step: `name AS (rel)`. -/
structure Stmt where
  name : String
  rel  : Rel
deriving Repr, Inhabited

/-- Bind a table name. -/
def Db.set (db : Db) (name : String) (rows : List Row) : Db :=
  fun n => if n == name then rows else db n

/-- Run the statements in order, each seeing the tables bound so far. -/
def runStmts (db : Db) : List Stmt → Db
  | [] => db
  | s :: ss => runStmts (Db.set db s.name (s.rel.eval db)) ss

end SplinkVerif.Rel
