import SplinkVerif.Model.Base
/-!
# Model of `compute_graph_metrics`

Mirrors `splink/internals/graph_metrics.py` (the SQL builders),
`splink/internals/edge_metrics.py:compute_igraph_metrics` (integer relabelling,
igraph `bridges`, relabelling back) and
`linker_components/clustering.py:compute_graph_metrics` (the three result tables).
One definition per SQL statement, in the order the code issues them.

Records are `0..n-1` (the harness maps the engine's (composite) ids to their
rank; the SQL uses ids only through `=`), `cid i` is the `cluster_id` of record
`i` in `df_clustered`, an edge row is a pair `(l, r)`.  Exact quotients are
kept as numerator/denominator pairs (`Frac`); the harness divides them in
IEEE double exactly as the engines do (`1.0 * int / int`).

* `truncatedEdges`      — `__splink__truncated_edges`
* `allNodes`            — `__splink__all_nodes` (UNION ALL of both orientations)
* `nodeDegree`,`clusterSize`,`nodeDegreeTable` — `__splink__graph_metrics_node_degree`
* `nodeCentrality`,`nodesTable` — `__splink__graph_metrics_nodes`
* `newId`,`oldId`       — `__splink__nodes_integer_mapping` read in either direction
* `edgesForIgraph`      — `__splink__edges_with_mapped_ids`
* `igraphInput`,`bridgeRows` — the pandas/igraph step (`bridges` is a PARAMETER)
* `bridgesOnly`         — `__splink__bridges_only`
* `fullBridges`         — `__splink__graph_metrics_edges`
* `clusterRow`,`clustersTable` — `__splink__counts_per_cluster` + `__splink__graph_metrics_clusters`
-/
namespace SplinkVerif.GraphMetrics

/-- An edge row `(l, r)` of the predictions table. -/
abbrev Edge := Nat × Nat

/-- An exact quotient `num / den` (SQL `1.0 * a / b` on integers). -/
structure Frac where
  num : Int
  den : Nat
deriving DecidableEq, Repr

/-- `__splink__truncated_edges`: `WHERE match_probability >= threshold`. -/
def truncatedEdges {α : Type} (ge : α → α → Bool) (thr : α) (edges : List (Nat × Nat × α)) :
    List Edge :=
  (edges.filter fun e => ge e.2.2 thr).map fun e => (e.1, e.2.1)

/-- `__splink__all_nodes`: `(l AS node, r AS neighbour) UNION ALL (r AS node, l AS neighbour)`. -/
def allNodes (es : List Edge) : List (Nat × Nat) :=
  es.map (fun e => (e.1, e.2)) ++ es.map (fun e => (e.2, e.1))

/-- `COUNT(*) FILTER (WHERE n.neighbour IS NOT NULL)` of the group of record `i`
in `clusters c LEFT JOIN __splink__all_nodes n ON c.id = n.node`: the number of
`all_nodes` rows whose `node` is `i` (an unmatched record has one all-NULL row,
which the FILTER drops). -/
def nodeDegree (es : List Edge) (i : Nat) : Nat :=
  ((allNodes es).filter fun r => r.1 == i).length

/-- `COUNT(*) OVER (PARTITION BY c.cluster_id)` evaluated after the GROUP BY:
the number of records with the same `cluster_id` as record `i`. -/
def clusterSize (n : Nat) (cid : Nat → Nat) (i : Nat) : Nat :=
  ((List.range n).filter fun j => cid j == cid i).length

/-- `__splink__graph_metrics_node_degree`: `(id, cluster_id, node_degree, cluster_size)`,
one row per `GROUP BY composite_unique_id, cluster_id` group. -/
def nodeDegreeTable (n : Nat) (cid : Nat → Nat) (es : List Edge) : List (Nat × Nat × Nat × Nat) :=
  (List.range n).map fun i => (i, cid i, nodeDegree es i, clusterSize n cid i)

/-- `CASE WHEN cluster_size > 1 THEN (1.0 * node_degree) / (cluster_size - 1) ELSE 0 END`. -/
def nodeCentrality (deg size : Nat) : Frac :=
  if size > 1 then ⟨deg, size - 1⟩ else ⟨0, 1⟩

/-- A row of `__splink__graph_metrics_nodes`. -/
structure NodeRow where
  node : Nat
  cluster : Nat
  degree : Nat
  centrality : Frac
deriving DecidableEq, Repr

/-- `__splink__graph_metrics_nodes` (`GraphMetricsResults.nodes`). -/
def nodesTable (n : Nat) (cid : Nat → Nat) (es : List Edge) : List NodeRow :=
  (nodeDegreeTable n cid es).map fun r => ⟨r.1, r.2.1, r.2.2.1, nodeCentrality r.2.2.1 r.2.2.2⟩

/-! ## Edge metrics: integer relabelling, igraph, relabelling back -/

/-- `__splink__nodes_integer_mapping` read left to right: `row_number() OVER (ORDER BY 1) - 1`
numbers the rows of the nodes table in an engine-chosen order `order`; `newId order v`
is the `new_id` of the (first) row whose `composite_unique_id` is `v`, NULL if there is none
(`composite_unique_id` is unique in the nodes table — `one_row_each` — so a LEFT JOIN on it
finds at most one row). -/
def newId : List Nat → Nat → Option Nat
  | [], _ => none
  | x :: xs, v => if x = v then some 0 else (newId xs v).map (· + 1)

/-- The same table read right to left (`ON e.node_l = m.new_id`). -/
def oldId (order : List Nat) (k : Nat) : Option Nat := order[k]?

/-- `__splink__edges_with_mapped_ids`: both endpoints LEFT JOINed to the mapping. -/
def edgesForIgraph (order : List Nat) (es : List Edge) : List (Option Nat × Option Nat) :=
  es.map fun e => (newId order e.1, newId order e.2)

/-- `as_pandas_dataframe()` + `ig.Graph.DataFrame(..., directed=False)`: defined only when no
endpoint is NULL (igraph raises otherwise — a loud failure). -/
def igraphInput (m : List (Option Nat × Option Nat)) : Option (List (Nat × Nat)) :=
  if m.all (fun p => p.1.isSome && p.2.isSome) then
    some (m.map fun p => (p.1.getD 0, p.2.getD 0))
  else none

/-- `df_edges_for_igraph.iloc[bridges_indices, :]`: the rows of the relabelled edge list at the
edge indices igraph reports.  `bridges` is igraph's `Graph.bridges` — a PARAMETER. -/
def bridgeRows (bridges : List (Nat × Nat) → List Nat) (g : List (Nat × Nat)) : List (Nat × Nat) :=
  (bridges g).filterMap fun k => g[k]?

/-- `__splink__bridges_only`: both endpoints LEFT JOINed back through the mapping
(`TRUE AS is_bridge` is implicit: every row of this table is a bridge). -/
def bridgesOnly (order : List Nat) (rows : List (Nat × Nat)) : List (Option Nat × Option Nat) :=
  rows.map fun p => (oldId order p.1, oldId order p.2)

/-- `__splink__graph_metrics_edges`: `truncated_edges e LEFT JOIN bridges_only b ON e.l = b.node_l
AND e.r = b.node_r`, `COALESCE(b.is_bridge, FALSE)`: one row per matching bridge row, or one
`FALSE` row when nothing matches (NULL never equals anything). -/
def fullBridges (es : List Edge) (b : List (Option Nat × Option Nat)) : List (Nat × Nat × Bool) :=
  es.flatMap fun e =>
    let ms := b.filter fun r => r == (some e.1, some e.2)
    if ms.isEmpty then [(e.1, e.2, false)] else ms.map fun _ => (e.1, e.2, true)

/-- `compute_igraph_metrics` (`GraphMetricsResults.edges`); `none` = igraph raised. -/
def edgesTable (bridges : List (Nat × Nat) → List Nat) (order : List Nat) (es : List Edge) :
    Option (List (Nat × Nat × Bool)) :=
  (igraphInput (edgesForIgraph order es)).map fun g =>
    fullBridges es (bridgesOnly order (bridgeRows bridges g))

/-! ## Cluster metrics -/

/-- A row of `__splink__graph_metrics_clusters`. -/
structure ClusterRow where
  cluster : Nat
  nNodes : Nat
  nEdges : Frac
  density : Option Frac
  centralisation : Option Frac
deriving DecidableEq, Repr

/-- `SUM(node_degree)` of a group. -/
def sumDeg (ms : List NodeRow) : Nat := (ms.map (·.degree)).sum

/-- `MAX(node_degree)` of a (non-empty) group. -/
def maxDeg (ms : List NodeRow) : Nat := (ms.map (·.degree)).foldl max 0

/-- The group `cluster_id = c` of `__splink__counts_per_cluster` followed by the density step:
`COUNT(*)`, `SUM(node_degree)/2.0`,
`CASE WHEN COUNT(*) > 2 THEN 1.0*(COUNT(*)*MAX(node_degree) - SUM(node_degree))/((COUNT(*)-1)*(COUNT(*)-2)) ELSE NULL END`,
`CASE WHEN n_nodes > 1 THEN 1.0*(n_edges*2)/(n_nodes*(n_nodes-1)) ELSE NULL END`. -/
def clusterRow (rows : List NodeRow) (c : Nat) : ClusterRow :=
  let ms := rows.filter fun r => r.cluster == c
  let n := ms.length
  let s := sumDeg ms
  let mx := maxDeg ms
  { cluster := c
    nNodes := n
    nEdges := ⟨s, 2⟩
    density := if n > 1 then some ⟨(s : Int) * 2, 2 * (n * (n - 1))⟩ else none
    centralisation :=
      if n > 2 then some ⟨(n : Int) * (mx : Int) - (s : Int), (n - 1) * (n - 2)⟩ else none }

/-- `__splink__graph_metrics_clusters` (`GraphMetricsResults.clusters`): one row per
`GROUP BY cluster_id` group of the nodes table. -/
def clustersTable (rows : List NodeRow) : List ClusterRow :=
  ((rows.map (·.cluster)).eraseDups).map (clusterRow rows)

/-! ## Reference instantiation of the igraph parameter (used by the driver only) -/

/-- One pass over the edge list marking the other endpoint of every edge with a marked endpoint;
the flag says whether anything changed. -/
def relax (g : List (Nat × Nat)) (vis : Array Bool) : Array Bool × Bool :=
  g.foldl (fun (st : Array Bool × Bool) e =>
    let a := st.1.getD e.1 false
    let b := st.1.getD e.2 false
    if a && !b then (st.1.setIfInBounds e.2 true, true)
    else if b && !a then (st.1.setIfInBounds e.1 true, true)
    else st) (vis, false)

/-- Repeat `relax` until nothing changes (at most `fuel` passes). -/
def reachLoop (g : List (Nat × Nat)) : Nat → Array Bool → Array Bool
  | 0, v => v
  | fuel + 1, v =>
    let r := relax g v
    if r.2 then reachLoop g fuel r.1 else r.1

/-- Naive bridge finder: edge index `k` is a bridge iff its endpoints are not connected in the
multigraph with row `k` removed.  Stands in for igraph's `Graph.bridges` in the compiled
driver; the theorems never unfold it (they hold for every `bridges`). -/
def naiveBridges (g : List (Nat × Nat)) : List Nat :=
  let nv := g.foldl (fun m e => max m (max e.1 e.2 + 1)) 0
  (List.range g.length).filter fun k =>
    match g[k]? with
    | none => false
    | some e =>
      let g' := g.eraseIdx k
      let vis := reachLoop g' (nv + 1) ((Array.replicate nv false).setIfInBounds e.1 true)
      !(vis.getD e.2 false)

end SplinkVerif.GraphMetrics
