import SplinkVerif.Model.Base
/-!
# Model of `splink/internals/blocking.py` (+ the two-table split of
`vertically_concatenate.py` and `settings.py:_brs_as_objs`)

Records are indices `0..m-1` into the vertically concatenated table; `key i` is
the rank of the composite unique id (`source_dataset || '-__-' || unique_id`, or
`unique_id` alone for `dedupe_only`) in the engine's order and `sd i` the rank of
the source dataset value.  A blocking rule is its *outcome function* on ordered
pairs of records under SQL three-valued logic (`Rule.eval l r : B3`): the model
covers what Splink adds around a rule — the join, the link-type `WHERE` clause,
the `AND NOT (coalesce(rule_j,false) OR …)` exclusion of preceding rules
(`_brs_as_objs` gives rule `i` the rules `0..i-1`), salting partitions,
materialised id-pair tables of exploding rules and the `EXISTS` exclusion
against them, the `UNION ALL`, and `match_key`.

* `whereCond`      — `_sql_gen_where_condition`
* `leftTable`/`rightTable` — `split_df_concat_with_tf_into_two_tables_sqls`
* `excluded`       — `exclude_pairs_generated_by_all_preceding_rules_sql`
* `blockRule`      — `BlockingRule/SaltedBlockingRule/ExplodingBlockingRule.create_blocked_pairs_sql`
                     and `ExplodingBlockingRule.marginal_exploded_id_pairs_table_sql`
* `block`          — `block_using_rules_sqls` (no rules ⇒ the single rule `1=1`)
-/
namespace SplinkVerif.Blocking

/-- Backend link types (`two_dataset_link_only` is chosen by `predict` for
`link_only` with exactly two input tables). -/
inductive LinkType
  | dedupeOnly | linkOnly | linkAndDedupe | twoDatasetLinkOnly
  deriving DecidableEq, Repr

inductive RuleKind
  | plain
  /-- `salting_partitions = n` -/
  | salted (n : Nat)
  /-- `arrays_to_explode`: `eval l r = some true` iff some combination of array
  elements of `l` and `r` satisfies the rule on the unnested table. -/
  | exploding
  deriving DecidableEq, Repr

structure Rule where
  kind : RuleKind
  eval : Nat → Nat → B3

/-- The concatenated input table. -/
structure Table where
  m    : Nat                 -- number of records
  key  : Nat → Nat           -- rank of the composite unique id
  sd   : Nat → Nat           -- rank of the source dataset
  /-- `part i n` = salting partition (`0..n-1`) of record `i` under `n` partitions. -/
  part : Nat → Nat → Nat

/-- An emitted row of `__splink__blocked_id_pairs`: `(match_key, l, r)`. -/
abbrev Row := Nat × Nat × Nat

/-- `_sql_gen_where_condition`. -/
def whereCond (lt : LinkType) (t : Table) (l r : Nat) : Bool :=
  match lt with
  | .dedupeOnly | .linkAndDedupe => t.key l < t.key r
  | .linkOnly => t.key l < t.key r && t.sd l != t.sd r
  | .twoDatasetLinkOnly => true

def minSd (t : Table) : Nat := (List.range t.m).foldl (fun a i => min a (t.sd i)) (t.sd 0)

/-- Left input of the join (`…_left` = rows of the minimum source dataset for
`two_dataset_link_only`, the whole table otherwise); `…_right` = the rows that
are not in the left table. -/
def leftTable (lt : LinkType) (t : Table) : List Nat :=
  match lt with
  | .twoDatasetLinkOnly => (List.range t.m).filter fun i => t.sd i == minSd t
  | _ => List.range t.m

def rightTable (lt : LinkType) (t : Table) : List Nat :=
  match lt with
  | .twoDatasetLinkOnly => (List.range t.m).filter fun i => t.sd i != minSd t
  | _ => List.range t.m

/-- A preceding rule together with its materialised id-pair table (used only
when the rule is exploding). -/
abbrev Done := Rule × List (Nat × Nat)

/-- `exclude_pairs_generated_by_this_rule_sql`: `coalesce((rule), false)` for
plain and salted rules, `EXISTS (… ids_to_compare …)` for exploding rules. -/
def excludedBy (d : Done) (l r : Nat) : Bool :=
  match d.1.kind with
  | .exploding => d.2.contains (l, r)
  | _ => B3.coalesceF (d.1.eval l r)

/-- `AND NOT (e_0 OR e_1 OR …)` — empty when there are no preceding rules. -/
def excluded (pre : List Done) (l r : Nat) : Bool := pre.any fun d => excludedBy d l r

/-- The join of `ls` and `rs` filtered by `p`, in join order. -/
def joinFilter (ls rs : List Nat) (p : Nat → Nat → Bool) : List (Nat × Nat) :=
  ls.flatMap fun l => (rs.filter fun r => p l r).map fun r => (l, r)

/-- Id pairs produced by one rule (for an exploding rule: its materialised
`__splink__marginal_exploded_ids_blocking_rule_mk_i` table). -/
def rulePairs (lt : LinkType) (t : Table) (pre : List Done) (rule : Rule) : List (Nat × Nat) :=
  match rule.kind with
  | .plain =>
    joinFilter (leftTable lt t) (rightTable lt t) fun l r =>
      B3.isTrue (rule.eval l r) && whereCond lt t l r && !excluded pre l r
  | .salted n =>
    -- `UNION ALL` over the partitions `k = 0..n-1` of the join on `(rule AND partition(l) = k)`
    (List.range n).flatMap fun k =>
      joinFilter (leftTable lt t) (rightTable lt t) fun l r =>
        B3.isTrue (B3.and3 (rule.eval l r) (some (t.part l n == k))) &&
          whereCond lt t l r && !excluded pre l r
  | .exploding =>
    -- `select distinct` over the self-join of the unnested table; for
    -- `two_dataset_link_only` the clause `l.source_dataset < r.source_dataset` is added
    (joinFilter (List.range t.m) (List.range t.m) fun l r =>
      B3.isTrue (rule.eval l r) && whereCond lt t l r &&
        (lt != .twoDatasetLinkOnly || t.sd l < t.sd r) && !excluded pre l r).eraseDups

/-- Rules `0..i-1` already processed (`pre`), remaining rules: emit rows with `match_key`. -/
def blockFrom (lt : LinkType) (t : Table) : List Done → List Rule → List Row
  | _, [] => []
  | pre, rule :: rest =>
    let ps := rulePairs lt t pre rule
    ps.map (fun p => (pre.length, p.1, p.2)) ++ blockFrom lt t (pre ++ [(rule, ps)]) rest

/-- The rule `1=1`. -/
def trueRule : Rule := { kind := .plain, eval := fun _ _ => some true }

/-- `block_using_rules_sqls`. -/
def block (lt : LinkType) (t : Table) (rules : List Rule) : List Row :=
  blockFrom lt t [] (if rules.isEmpty then [trueRule] else rules)

end SplinkVerif.Blocking
