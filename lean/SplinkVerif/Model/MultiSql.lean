import SplinkVerif.Model.CCSql
import SplinkVerif.Generated.MultiSql
/-!
# `cluster_pairwise_predictions_at_multiple_thresholds` at the level of the SQL it emits

The statements of one pass of the threshold loop are the regenerated terms of `Generated/MultiSql.lean`; the marginal
clustering is the SQL-level connected-components pipeline `CCSql.cluster` run on `__splink__nodes_in_play` /
`__splink__edges_in_play`.  Hand-written here: only the Python control flow (`for new_threshold in …`).
-/
namespace SplinkVerif.MultiSql
open SplinkVerif.Rel

/-- One pass: `cc` is the clustering at `tPrev`; result = `__splink__clusters_at_threshold` at `tNew`. -/
def step (nodes edges cc : List Row) (tPrev tNew one : Val) (fuel : Nat) : List Row :=
  let db0 := Db.set (Db.set (Db.set CCSql.emptyDb "nodes_in" nodes) "edges_in" edges) "cc" cc
  let db := runStmts db0 (Gen.MultiSql.before tPrev tNew one)
  let marginal := CCSql.cluster (db "__splink__nodes_in_play") (db "__splink__edges_in_play") (some tNew) fuel
  Gen.MultiSql.after.rel.eval (Db.set db "marginal" marginal)

/-- The loop over the remaining (ascending) thresholds. -/
def loop (nodes edges : List Row) (one : Val) (fuel : Nat) : List Row → Val → List Val → List (List Row)
  | _, _, [] => []
  | cc, tPrev, t :: ts =>
    let cc' := step nodes edges cc tPrev t one fuel
    cc' :: loop nodes edges one fuel cc' t ts

/-- `all_results` for thresholds already sorted ascending (the sort is `threshold_args_to_match_prob_list`, T-arith). -/
def multi (nodes edges : List Row) (one : Val) (fuel : Nat) : List Val → List (List Row)
  | [] => []
  | t0 :: rest =>
    let cc0 := CCSql.cluster nodes edges (some t0) fuel
    cc0 :: loop nodes edges one fuel cc0 t0 rest

end SplinkVerif.MultiSql
