import SplinkVerif.Model.Rel
import SplinkVerif.Generated.OtoSql
/-!
# `one_to_one_clustering` at the level of the SQL it emits

The statements are **not** written here: they are the terms of `Generated/OtoSql.lean`, regenerated from the running
code by the T-sql translator on every run.  What is hand-written is only the Python control flow around them
(`splink/internals/one_to_one_clustering.py: one_to_one_clustering`): the two statements before the loop, which tables a
pass reads and writes (`prev_representatives = representatives`; the neighbours table is the same in every pass), the
`while needs_updating_count > 0` loop with its forced first pass (`iteration, needs_updating_count = 0, 1`), and the final
statement over the table of the last pass.  The list `duplicate_free_datasets` enters the generated pass as the list
`sds` of its `'<sd>'` literals (`Gen.OtoSql.body first sds`; for lists of length 1, 2, 3 that term is — by `rfl`, in the
generated file — the translation of the SQL captured from the real code).

Pass 1 reads the 3-column table of the preamble, later passes the 4-column table of the pass before (the SQL text is the
same; the column positions the names resolve to are not): `Gen.OtoSql.body true` / `Gen.OtoSql.body false`.

`Lemmas/OtoSql.lean` proves that on tie-free inputs this pipeline computes exactly `OneToOne.cluster` (the functional
model the C12 theorems are about).
-/
namespace SplinkVerif.OtoSql
open SplinkVerif.Rel

def emptyDb : Db := fun _ => []

/-- The registered input tables: `nodes_in (nid, sd)`, `edges_in (el, er, match_probability)`. -/
def baseDb (nodes edges : List Row) : Db :=
  Db.set (Db.set emptyDb "nodes_in" nodes) "edges_in" edges

/-- Tables alive between two passes of the loop. -/
structure LoopSt where
  /-- `neighbours` (node_id, neighbour, match_probability): computed once -/
  nbrs : List Row
  /-- `prev_representatives` (node_id, representative, source_dataset[, needs_updating]) -/
  repr : List Row

/-- Everything before the loop. -/
def init (nodes edges : List Row) (thr : Option Val) : LoopSt :=
  let db := runStmts (baseDb nodes edges) (Gen.OtoSql.preamble thr)
  { nbrs := db "__splink__df_neighbours", repr := db "__splink__df_representatives" }

/-- The tables a pass sees, after running the statements of one pass. -/
def passDb (first : Bool) (sds : List Val) (s : LoopSt) : Db :=
  runStmts (Db.set (Db.set emptyDb "nbrs" s.nbrs) "reprPrev" s.repr) (Gen.OtoSql.body first sds)

/-- `root_rows[0]["count_of_nodes_needing_updating"]` -/
def countOf (rows : List Row) : Nat :=
  match rows with
  | [[.int c]] => c.toNat
  | _ => 0

/-- One pass of the `while` body: new state and `needs_updating_count`. -/
def pass (first : Bool) (sds : List Val) (s : LoopSt) : LoopSt × Nat :=
  let db := passDb first sds s
  ({ nbrs := s.nbrs, repr := db "reprNext" }, countOf (db "__splink__df_root_rows"))

/-- `while needs_updating_count > 0` after a pass has produced `(s, count)`; every further pass is a "later" pass. -/
def loop (sds : List Val) : Nat → LoopSt × Nat → LoopSt
  | 0, sc => sc.1
  | fuel + 1, sc => if sc.2 > 0 then loop sds fuel (pass false sds sc.1) else sc.1

/-- Per-pass counts after the first pass, as logged. -/
def loopTrace (sds : List Val) : Nat → LoopSt × Nat → List Nat
  | 0, _ => []
  | fuel + 1, sc => if sc.2 > 0 then (pass false sds sc.1).2 :: loopTrace sds fuel (pass false sds sc.1) else []

/-- `__splink__clustering_output_final` over the table of the last pass. -/
def output (s : LoopSt) : List Row :=
  Gen.OtoSql.finalStmt.eval (Db.set emptyDb "reprLast" s.repr)

/-- The whole function; `fuel` bounds the number of passes after the forced first one. -/
def cluster (nodes edges : List Row) (sds : List Val) (thr : Option Val) (fuel : Nat) : List Row :=
  output (loop sds fuel (pass true sds (init nodes edges thr)))

/-- The logged `needs_updating` counts, pass 1 first. -/
def trace (nodes edges : List Row) (sds : List Val) (thr : Option Val) (fuel : Nat) : List Nat :=
  let p := pass true sds (init nodes edges thr)
  p.2 :: loopTrace sds fuel p

/-- Encoding of the harness's canonical input: node ids are ranks `0..n-1`, `sd v` the source dataset value of record `v`. -/
def nodeRows (n : Nat) (sd : Nat → Val) : List Row :=
  (List.range n).map fun (i : Nat) => [Val.int (i : Int), sd i]

/-- An edge `(l, r, key)`: `key` is an integer order key of the match probability. -/
def edgeRows (edges : List (Nat × Nat × Nat)) : List Row :=
  edges.map fun e => [Val.int (e.1 : Int), Val.int (e.2.1 : Int), Val.int (e.2.2 : Int)]

end SplinkVerif.OtoSql
