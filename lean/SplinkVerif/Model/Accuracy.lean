import SplinkVerif.Model.Base
/-!
# Model of `splink/internals/accuracy.py` (+ `block_from_labels.py`, `lower_id_on_lhs.py`)

One `def` per SQL statement / CTE, in the order of the code.

Numbers.  Every SQL value that is only ever *compared* (clerical_match_score, match_weight,
match_probability, the thresholds, the `-999` sentinel and the `-998` cut-off) is an `Int`
**order key**: the driver maps a double to its key with a strictly monotone injection
(`Drv/Accuracy.lean: ordKey`), so `a ≤ b` on keys is `a <= b` on the doubles.  The row-level rounding
`cast(r as float) * round(match_weight / r)` is float arithmetic; it enters the model as the
function `Cfg.bucket` on keys (the driver computes it in IEEE doubles), and every theorem holds
for an arbitrary `bucket`.  Counts are `Int` (the SQL subtracts them).

`ORDER BY` clauses of the intermediate CTEs have no effect on the rows and are not modelled
(the harness compares sorted rows).
-/
namespace SplinkVerif.Accuracy

/-! ## `lower_id_on_lhs.py` / `block_from_labels.py` / `_select_found_by_blocking_rules` -/

/-- One row of the user's labels table: composite ids (as ranks of
`concat(source_dataset,'-__-',unique_id)` in string order) and the clerical score key. -/
structure LabelRow where
  idL : Nat
  idR : Nat
  score : Int
deriving DecidableEq, Repr

/-- `lower_id_to_left_hand_side`: `CASE WHEN uid_l < uid_r THEN col_l ELSE col_r END as col_l`
(and the mirror image for `_r`) for every `_l/_r` column pair; other columns are kept. -/
def lowerIdToLeftHandSide (row : LabelRow) : LabelRow :=
  if row.idL < row.idR then row else { row with idL := row.idR, idR := row.idL }

/-- `block_from_labels`: `labels inner join concat l on ids inner join concat r on ids`.
`present i` is the number of input records whose composite id has rank `i` (1 for well-formed
input, 0 for a label that names no record): an inner join repeats the row that many times. -/
def blockFromLabels (present : Nat → Nat) (labels : List LabelRow) : List LabelRow :=
  (labels.map lowerIdToLeftHandSide).flatMap fun row =>
    List.replicate (present row.idL * present row.idR) row

/-- `_select_found_by_blocking_rules`: `(coalesce(rule_1, false)) OR … OR (coalesce(rule_k, false))`,
or `1=1` when the model has no blocking rule.  `evals` are the SQL truth values of the rules on the
pair in the orientation produced by `lowerIdToLeftHandSide`. -/
def selectFoundByBlockingRules (evals : List B3) : Bool :=
  match evals with
  | [] => true
  | _ => evals.any B3.coalesceF

/-- Label-column mode: `not (cast(match_key as int) = {new_matchkey})`. -/
def foundFromMatchKey (matchKey newMatchKey : Nat) : Bool := !(matchKey == newMatchKey)

/-- Label-column mode: `case when (label_l = label_r) then 1.0 else 0.0 end` (NULL = anything is not TRUE). -/
def clericalFromLabelColumn (one zero : Int) (labelL labelR : Option Int) : Int :=
  match labelL, labelR with
  | some a, some b => if a = b then one else zero
  | _, _ => zero

/-! ## `truth_space_table_from_labels_with_predictions_sqls` -/

/-- One row of `__splink__labels_with_predictions` (the columns the truth table reads). -/
structure Scored where
  score : Int   -- clerical_match_score
  weight : Int  -- match_weight
  prob : Int    -- match_probability
  found : Bool  -- found_by_blocking_rules
deriving DecidableEq, Repr

structure Cfg where
  /-- `threshold_actual` -/
  thresholdActual : Int
  /-- `truth_thres_expr`: identity, or `cast(r as float) * round(match_weight / r)` -/
  bucket : Int → Int
  /-- `positives_not_captured_by_blocking_rules_scored_as_zero` -/
  scoreNotFoundAsZero : Bool
  /-- `cast(-999 as float8)` -/
  sentinel : Int
  /-- `cast(-998 as float8)` -/
  cutoff : Int
  /-- `total_labels` (label-column mode: `calculate_cartesian`), `none` for a labels table -/
  totalLabels : Option Int

/-- `__splink__labels_with_pos_neg` -/
structure PosNeg where
  truthThreshold : Int
  found : Bool
  clericalPositive : Int
  clericalNegative : Int
deriving DecidableEq, Repr

/-- CTE 1: `truth_threshold`, `clerical_positive = case when clerical_match_score >= threshold_actual then 1 else 0`,
`clerical_negative` the opposite. -/
def labelsWithPosNeg (cfg : Cfg) (xs : List Scored) : List PosNeg :=
  xs.map fun x =>
    { truthThreshold := cfg.bucket x.weight
      found := x.found
      clericalPositive := if x.score ≥ cfg.thresholdActual then 1 else 0
      clericalNegative := if x.score ≥ cfg.thresholdActual then 0 else 1 }

/-- `__splink__labels_with_pos_neg_tt_adj` -/
structure PosNegAdj where
  truthThresholdAdj : Int
  clericalPositive : Int
  clericalNegative : Int
deriving DecidableEq, Repr

/-- CTE 2: `CASE WHEN found_by_blocking_rules then truth_threshold ELSE cast(-999 as float8) END`
when the option is on, `truth_threshold` otherwise. -/
def labelsWithPosNegTtAdj (cfg : Cfg) (xs : List PosNeg) : List PosNegAdj :=
  xs.map fun x =>
    { truthThresholdAdj :=
        if cfg.scoreNotFoundAsZero then (if x.found then x.truthThreshold else cfg.sentinel)
        else x.truthThreshold
      clericalPositive := x.clericalPositive
      clericalNegative := x.clericalNegative }

/-- Distinct values of a list (the groups of a `GROUP BY`). -/
def distinct : List Int → List Int
  | [] => []
  | a :: l => if a ∈ distinct l then distinct l else a :: distinct l

/-- `__splink__labels_with_pos_neg_grouped` -/
structure Grouped where
  truthThreshold : Int
  numRecordsInRow : Int
  clericalPositive : Int
  clericalNegative : Int
deriving DecidableEq, Repr

/-- CTE 3: `select truth_threshold_adj, count(*), sum(clerical_positive), sum(clerical_negative) … group by truth_threshold_adj`. -/
def grouped (xs : List PosNegAdj) : List Grouped :=
  (distinct (xs.map (·.truthThresholdAdj))).map fun k =>
    let g := xs.filter (fun x => x.truthThresholdAdj == k)
    { truthThreshold := k
      numRecordsInRow := g.length
      clericalPositive := (g.map (·.clericalPositive)).sum
      clericalNegative := (g.map (·.clericalNegative)).sum }

/-- `__splink__labels_with_pos_neg_grouped_with_stats` -/
structure Stats where
  truthThreshold : Int
  cumPosAtOrAbove : Int
  cumNegBelow : Int
  totalPos : Int
  totalNeg : Int
  totalLabels : Int
  numBelow : Int
  numAtOrAbove : Int
deriving DecidableEq, Repr

/-- `sum(col) over (order by truth_threshold desc)`: default frame RANGE UNBOUNDED PRECEDING .. CURRENT ROW
= all rows whose key is ≥ the current one. -/
def windowDesc (gs : List Grouped) (col : Grouped → Int) (g : Grouped) : Int :=
  ((gs.filter fun h => decide (h.truthThreshold ≥ g.truthThreshold)).map col).sum

/-- `sum(col) over (order by truth_threshold)`: all rows whose key is ≤ the current one. -/
def windowAsc (gs : List Grouped) (col : Grouped → Int) (g : Grouped) : Int :=
  ((gs.filter fun h => decide (h.truthThreshold ≤ g.truthThreshold)).map col).sum

/-- CTE 4: the cumulative window sums and the three scalar sub-queries. -/
def groupedWithStats (gs : List Grouped) : List Stats :=
  gs.map fun g =>
    { truthThreshold := g.truthThreshold
      cumPosAtOrAbove := windowDesc gs (·.clericalPositive) g
      cumNegBelow := windowAsc gs (·.clericalNegative) g - g.clericalNegative
      totalPos := (gs.map (·.clericalPositive)).sum
      totalNeg := (gs.map (·.clericalNegative)).sum
      totalLabels := (gs.map (·.numRecordsInRow)).sum
      numBelow := - g.numRecordsInRow + windowAsc gs (·.numRecordsInRow) g
      numAtOrAbove := windowDesc gs (·.numRecordsInRow) g }

/-- CTE 5 (`…_with_stats_adj`): identity for a labels table; with `total_labels` the implicit
("ghost") negatives `total_labels - total_clerical_positives - total_clerical_negatives` are added to
`cumulative_clerical_negatives_below_threshold` and `num_labels_scored_below_threshold`, and the totals are replaced. -/
def statsAdj (totalLabels : Option Int) (ss : List Stats) : List Stats :=
  match totalLabels with
  | none => ss
  | some t =>
    ss.map fun s =>
      let extra := t - s.totalPos - s.totalNeg
      { truthThreshold := s.truthThreshold
        cumPosAtOrAbove := s.cumPosAtOrAbove
        cumNegBelow := s.cumNegBelow + extra
        totalPos := s.totalPos
        totalNeg := t - s.totalPos
        totalLabels := t
        numBelow := s.numBelow + extra
        numAtOrAbove := s.numAtOrAbove }

/-- `__splink__labels_with_pos_neg_grouped_with_truth_stats` -/
structure TruthRow where
  truthThreshold : Int
  total : Int
  p : Int
  n : Int
  fp : Int
  tp : Int
  fn : Int
  tn : Int
deriving DecidableEq, Repr

/-- CTE 6: P, N, FP, TP, FN, TN from the cumulative columns. -/
def truthStats (ss : List Stats) : List TruthRow :=
  ss.map fun s =>
    { truthThreshold := s.truthThreshold
      total := s.totalLabels
      p := s.totalPos
      n := s.totalNeg
      fp := s.numAtOrAbove - s.cumPosAtOrAbove
      tp := s.cumPosAtOrAbove
      fn := s.numBelow - s.cumNegBelow
      tn := s.cumNegBelow }

/-- All rows before the final `where` (CTEs 1–6). -/
def truthRows (cfg : Cfg) (xs : List Scored) : List TruthRow :=
  truthStats (statsAdj cfg.totalLabels (groupedWithStats (grouped
    (labelsWithPosNegTtAdj cfg (labelsWithPosNeg cfg xs)))))

/-- CTE 7 (`__splink__truth_space_table`), integer part: `where truth_threshold >= cast(-998 as float8)`. -/
def truthSpace (cfg : Cfg) (xs : List Scored) : List TruthRow :=
  (truthRows cfg xs).filter fun r => decide (r.truthThreshold ≥ cfg.cutoff)

/-- The score a labelled pair is counted at: its bucketed match weight, or the sentinel when the
option is on and the blocking rules did not find it (composition of CTE 1 and CTE 2). -/
def adjScore (cfg : Cfg) (x : Scored) : Int :=
  if cfg.scoreNotFoundAsZero then (if x.found then cfg.bucket x.weight else cfg.sentinel)
  else cfg.bucket x.weight

/-- Clerical positive: `clerical_match_score >= threshold_actual`. -/
def isPos (cfg : Cfg) (x : Scored) : Bool := decide (x.score ≥ cfg.thresholdActual)

/-! ### Derived rates (CTE 7, float part) — checked by correspondence and oracle only -/

structure Rates where
  matchProbability : Float
  pRate : Float
  nRate : Float
  tpRate : Float
  tnRate : Float
  fpRate : Float
  fnRate : Float
  precision : Float
  recall : Float
  specificity : Float
  npv : Float
  accuracy : Float
  f1 : Float
  f2 : Float
  f05 : Float
  p4 : Float
  phi : Float

/-- Engine semantics of two SQL atoms the rate columns depend on. -/
structure Engine where
  /-- `/` on two integers is integer division (SQLite, Postgres) rather than float division (DuckDB, Spark) -/
  intDivision : Bool
  /-- `cast(x as float)` is a 32-bit float (DuckDB) rather than a double (SQLite) -/
  floatIs32 : Bool

/-- CTE 7: the rate columns, as coded (`x/0` is IEEE here; the engines return NULL, inf or NaN — the
harness treats rows with a zero denominator separately).  `tt` is the double `truth_threshold`.
`totalIsInt`: for a labels table `P`, `N` and `total_clerical_labels` are integer sums (for a label column they are
doubles, through `cast(total_labels as float8)`).  One column is engine-dependent as coded:
`cast(N as float)/total_clerical_labels` is single precision where `float` is 32 bits.
(`P_rate` used to be `cast(P/total as float8)`, integer division on SQLite — repaired in /repo, finding F19;
it is now `cast(P as float8)/total` like its neighbours.) -/
def rates (eng : Engine) (totalIsInt : Bool) (tt : Float) (r : TruthRow) : Rates :=
  let f (i : Int) : Float := Float.ofInt i
  let P := f r.p; let N := f r.n; let TP := f r.tp; let TN := f r.tn; let FP := f r.fp; let FN := f r.fn
  { matchProbability := Float.pow 2 tt / (1 + Float.pow 2 tt)
    pRate := P / f r.total
    nRate := if eng.floatIs32 then
               (if totalIsInt then (N.toFloat32 / (f r.total).toFloat32).toFloat else N.toFloat32.toFloat / f r.total)
             else N / f r.total
    tpRate := TP / P
    tnRate := TN / N
    fpRate := FP / N
    fnRate := FN / P
    precision := if r.tp + r.fp = 0 then 1 else TP / (TP + FP)
    recall := TP / P
    specificity := TN / N
    npv := if r.tn + r.fn = 0 then 1 else TN / (TN + FN)
    accuracy := (TP + TN) / (P + N)
    f1 := 2.0 * TP / (2 * TP + FN + FP)
    f2 := 5.0 * TP / (5 * TP + 4 * FN + FP)
    f05 := 1.25 * TP / (1.25 * TP + 0.25 * FN + FP)
    p4 := 4.0 * TP * TN / ((4.0 * TP * TN) + ((TP + TN) * (FP + FN)))
    phi := if r.tn + r.fn = 0 ∨ r.tp + r.fp = 0 ∨ r.p = 0 ∨ r.n = 0 then 0
           else (TP * TN - FP * FN) / Float.sqrt ((TP + FP) * P * N * (TN + FN)) }

/-! ## `prediction_errors_from_labels_table` / `prediction_errors_from_label_column` -/

/-- `false_positives`: `clerical_match_score < t and match_probability > t` (both strict, same `t`). -/
def isFalsePositive (t : Int) (x : Scored) : Bool := decide (x.score < t) && decide (x.prob > t)

/-- `false_negatives` of the labels-table function: `clerical_match_score > t and match_probability < t`. -/
def isFalseNegativeTable (t : Int) (x : Scored) : Bool := decide (x.score > t) && decide (x.prob < t)

/-- `false_negatives` of the label-column function: the above, `or (clerical_match_score > t and found_by_blocking_rules = False)`. -/
def isFalseNegativeColumn (t : Int) (x : Scored) : Bool :=
  (decide (x.score > t) && decide (x.prob < t)) || (decide (x.score > t) && !x.found)

inductive Status | fp | fn
deriving DecidableEq, Repr

/-- `prediction_errors_from_labels_table`: `where (FP if include_false_positives) OR (FN if include_false_negatives)`,
`truth_status = case when FP then 'FP' when FN then 'FN' end`.  (With both flags off the SQL has an empty
`where` and the engine raises; the model returns no row.) -/
def predictionErrorsTable (t : Int) (inclFP inclFN : Bool) (xs : List Scored) : List (Scored × Option Status) :=
  (xs.filter fun x => (inclFP && isFalsePositive t x) || (inclFN && isFalseNegativeTable t x)).map fun x =>
    (x, if isFalsePositive t x then some .fp else if isFalseNegativeTable t x then some .fn else none)

/-- `prediction_errors_from_label_column`: same `where`, with the column variant of `false_negatives`; no status column. -/
def predictionErrorsColumn (t : Int) (inclFP inclFN : Bool) (xs : List Scored) : List Scored :=
  xs.filter fun x => (inclFP && isFalsePositive t x) || (inclFN && isFalseNegativeColumn t x)

end SplinkVerif.Accuracy
