import SplinkVerif.Model.Rel
import SplinkVerif.Generated.AccSql
/-!
# The truth-space statements of `accuracy.py` at the level of the SQL they emit (labels from a table)

The six statements from `__splink__labels_with_pos_neg` to `__splink__labels_with_pos_neg_grouped_with_truth_stats` are the
regenerated terms of `Generated/AccSql.lean`; they are one CTE pipeline, so the only control flow is `runStmts`.
-/
namespace SplinkVerif.AccSql
open SplinkVerif.Rel

/-- `lwp_in` (match_weight rounded to the grid, clerical_match_score, found_by_blocking_rules) ↦
`__splink__labels_with_pos_neg_grouped_with_truth_stats` (truth_threshold, total_clerical_labels, P, N, FP, TP, FN, TN). -/
def truthStats (lwp : List Row) (thr sentinel : Val) : List Row :=
  (runStmts (Db.set (fun _ => []) "lwp_in" lwp) (Gen.AccSql.stmts thr sentinel))
    "__splink__labels_with_pos_neg_grouped_with_truth_stats"

end SplinkVerif.AccSql
