import SplinkVerif.Model.Rel
import SplinkVerif.Model.RelOrder
import SplinkVerif.Generated.BCountSql
/-!
# The counting SQL of `blocking_analysis.py` (pre-filter count, `n_largest_blocks`) at the level of the SQL it emits

`_count_comparisons_from_blocking_rule_pre_filter_conditions_sqls` builds its statements with a Python loop over the rule's
equi-join conditions `[(l_key, r_key), …]` (any number `k ≥ 0`): the select items `l_key as key_i`, the `GROUP BY` list, the
`USING (key_0, …)` list.  That loop is hand-written here (`sideStmt`, `usingCond`, `blocksStmt`, `topStmt`: generic in `k`); the
statements that do not depend on the keys (the no-key forms, the total) are the regenerated terms of `Generated/BCountSql.lean`,
and the generic forms are proved to be *syntactically equal* to the regenerated statements of every captured run (`k = 1, 2, 3`, both
table set-ups: `Lemmas.BCountSql.gen_*`), so a change of the emitted SQL breaks those equalities.

The key expressions are PARAMETERS (`Expr` over a row of the table the side statement reads).
Tables: self-join set-up — both sides read `__splink__df_concat`; two-table `link_only` — `input_0` / `input_1`.
-/
namespace SplinkVerif.BCountSql
open SplinkVerif.Rel

def nameConcat : String := "__splink__df_concat"
def nameL : String := "__splink__count_comparisons_from_blocking_l"
def nameR : String := "__splink__count_comparisons_from_blocking_r"
def nameBlocks : String := "__splink__block_counts"
def nameTotal : String := "__splink__total_of_block_counts"

/-- the table the left / right side statement reads -/
def tableL (two : Bool) : String := if two then "input_0" else nameConcat
def tableR (two : Bool) : String := if two then "input_1" else nameConcat

/-- `select k_0 as key_0, …, count(*) as count_x from tbl group by k_0, …` (columns key_0 … key_{k-1}, count_x) -/
def sideStmt (ks : List Expr) (tbl : String) : Rel :=
  Rel.groupBy ks [Agg.countStar] (Rel.table tbl)

/-- a conjunction as the translator writes `USING (c_0, c_1, …)`: `((c_0 AND c_1) AND …)` -/
def conj : List Expr → Expr
  | [] => Expr.lit (Val.bool true)
  | e :: es => es.foldl Expr.and e

/-- `USING (key_0, …, key_{k-1})` between two tables of `k + 1` columns: SQL equality of the key columns (NULL never joins) -/
def usingCond (k : Nat) : Expr :=
  conj ((List.range k).map fun i => Expr.cmp Cmp.eq (Expr.col i) (Expr.col (k + 1 + i)))

/-- `…_l inner join …_r using (key_0, …)` : rows `key_l…, count_l, key_r…, count_r` -/
def joined (k : Nat) : Rel :=
  Rel.join false (usingCond k) (Rel.table nameL) (Rel.table nameR) (k + 1)

/-- `count_l, count_r, count_l * count_r as block_count` over a joined row -/
def countCols (k : Nat) : List Expr :=
  [Expr.col k, Expr.col (2 * k + 1), Expr.arith Arith.mul (Expr.col k) (Expr.col (2 * k + 1))]

/-- `__splink__block_counts`: `select count_l, count_r, count_l * count_r as block_count from …_l inner join …_r using (…)` -/
def blocksStmt (k : Nat) : Rel := Rel.project (countCols k) (joined k)

/-- the last statement of `n_largest_blocks` without its `ORDER BY … LIMIT`: `select key_0, …, count_l, count_r, count_l * count_r …` -/
def topStmt (k : Nat) : Rel := Rel.project ((List.range k).map Expr.col ++ countCols k) (joined k)

/-- `order by count_l * count_r desc` over the output row of `topStmt` -/
def topKey (k : Nat) : Expr := Expr.arith Arith.mul (Expr.col k) (Expr.col (k + 1))

/-- The statement list of `_count_comparisons_from_blocking_rule_pre_filter_conditions_sqls` after `__splink__df_concat`
(`if not join_conditions:` the fixed no-key statement of the set-up; otherwise the three loop-built statements). -/
def preFilterStmts (two : Bool) (keys : List (Expr × Expr)) : List Stmt :=
  if keys.isEmpty then
    [⟨nameBlocks, if two then Gen.BCountSql.two0Blocks else Gen.BCountSql.self0Blocks⟩]
  else
    [⟨nameL, sideStmt (keys.map (·.1)) (tableL two)⟩, ⟨nameR, sideStmt (keys.map (·.2)) (tableR two)⟩,
     ⟨nameBlocks, blocksStmt keys.length⟩]

/-- `_count_comparisons_generated_from_blocking_rule`: the statements above, then the total. -/
def countStmts (two : Bool) (keys : List (Expr × Expr)) : List Stmt :=
  preFilterStmts two keys ++ [⟨nameTotal, Gen.BCountSql.self1Total⟩]

/-- `n_largest_blocks` (it enqueues a second `__splink__block_counts`, which shadows the first). -/
def nLargestStmts (two : Bool) (keys : List (Expr × Expr)) : List Stmt :=
  preFilterStmts two keys ++ [⟨nameBlocks, topStmt keys.length⟩]

/-- `__splink__block_counts` of the counting pipeline on the database `db`. -/
def blocks (two : Bool) (keys : List (Expr × Expr)) (db : Db) : List Row :=
  (runStmts db (countStmts two keys)) nameBlocks

/-- The Python post-processing of the one-row result: `None` / NaN (the sum over no rows) means 0. -/
def totalOf : List Row → Nat
  | [[Val.int i]] => i.toNat
  | _ => 0

/-- `number_of_comparisons_generated_pre_filter_conditions` -/
def preFilterTotal (two : Bool) (keys : List (Expr × Expr)) (db : Db) : Nat :=
  totalOf ((runStmts db (countStmts two keys)) nameTotal)

/-- the rows `n_largest_blocks` orders and cuts -/
def topRows (two : Bool) (keys : List (Expr × Expr)) (db : Db) : List Row :=
  (runStmts db (nLargestStmts two keys)) nameBlocks

/-- `out` is a possible result of `n_largest_blocks(n_largest = n)` -/
def IsNLargest (two : Bool) (keys : List (Expr × Expr)) (db : Db) (n : Nat) (out : List Row) : Prop :=
  IsOrderLimit (topKey keys.length) true n (topRows two keys db) out

/-- the resolution the driver evaluates -/
def nLargest (two : Bool) (keys : List (Expr × Expr)) (db : Db) (n : Nat) : List Row :=
  orderLimit (topKey keys.length) true n (topRows two keys db)

/-! ## Specification vocabulary (what the statements are meant to compute) -/

/-- the key tuple of a row -/
def keyOf (ks : List Expr) (row : Row) : List Val := ks.map (·.eval row)

/-- no component is NULL -/
def nullFree (k : List Val) : Bool := k.all (· != Val.null)

/-- number of rows of `T` whose key tuple is `k` (`GROUP BY` equality: NULL = NULL) -/
def sizeOf (ks : List Expr) (T : List Row) (k : List Val) : Nat :=
  (T.filter fun row => keyOf ks row == k).length

/-- The size of the equi-join `L ⋈ R ON l_key_0 = r_key_0 AND …` (SQL equality: pairs with a NULL key component never match). -/
def equiJoinSize (keys : List (Expr × Expr)) (L R : List Row) : Nat :=
  (L.map fun l => (R.filter fun r =>
    nullFree (keyOf (keys.map (·.1)) l) && keyOf (keys.map (·.1)) l == keyOf (keys.map (·.2)) r).length).sum

/-- The key tuples present on both sides and NULL-free, in the order of first occurrence on the left: the *blocks*. -/
def blockKeys (keys : List (Expr × Expr)) (L R : List Row) : List (List Val) :=
  ((L.map (keyOf (keys.map (·.1)))).eraseDups).filter fun k =>
    nullFree k && (R.map (keyOf (keys.map (·.2)))).contains k

/-- `count_l` / `count_r` of the block with key tuple `k` -/
def cntL (keys : List (Expr × Expr)) (L : List Row) (k : List Val) : Nat := sizeOf (keys.map (·.1)) L k
def cntR (keys : List (Expr × Expr)) (R : List Row) (k : List Val) : Nat := sizeOf (keys.map (·.2)) R k

/-- the row `(count_l, count_r, block_count)` of the block with key tuple `k` -/
def blockRow (keys : List (Expr × Expr)) (L R : List Row) (k : List Val) : Row :=
  [Val.int (cntL keys L k : Nat), Val.int (cntR keys R k : Nat), Val.int ((cntL keys L k : Nat) * (cntR keys R k : Nat))]

/-! ## `__splink__df_concat` (`vertically_concatenate_sql`, no salt, no source dataset column given)

A Python loop over the input tables: one table — `select <columns> from t`; several — the `UNION ALL` of
`select '<table alias>' as source_dataset, <columns> from t`.  `w` = the number of columns (the first table's, resolved by
name in every table; here by position: the tables list their columns in the same order). -/

/-- `select c_0, …, c_{w-1} from name` -/
def concatOne (w : Nat) (name : String) : Rel := Rel.project ((List.range w).map Expr.col) (Rel.table name)

/-- `select '<name>' as source_dataset, c_0, …, c_{w-1} from name` -/
def concatTerm (w : Nat) (name : String) : Rel :=
  Rel.project (Expr.lit (Val.str name) :: (List.range w).map Expr.col) (Rel.table name)

/-- the statement for the input tables `names` -/
def concatStmt (w : Nat) : List String → Rel
  | [] => Rel.table ""
  | [n] => concatOne w n
  | n :: ns => ns.foldl (fun acc m => Rel.union true acc (concatTerm w m)) (concatTerm w n)

/-- the rows of `__splink__df_concat` -/
def concatRows (names : List String) (db : Db) : List Row :=
  match names with
  | [n] => db n
  | _ => names.flatMap fun n => (db n).map fun row => Val.str n :: row

/-- the whole self-join pipeline of `count_comparisons_from_blocking_rule`, `__splink__df_concat` included -/
def selfCountStmts (w : Nat) (names : List String) (keys : List (Expr × Expr)) : List Stmt :=
  ⟨nameConcat, concatStmt w names⟩ :: countStmts false keys

/-! ## `_row_counts_per_input_table` -/

def nameCount : String := "__splink__df_count"

/-- `if link_type == "dedupe_only": count(*)  elif source_dataset_input_column is not None: count(*) … group by <sd>` -/
def rowCountStmt (dedupe : Bool) (sd : Expr) : Rel :=
  if dedupe then Gen.BCountSql.rowCountAll else Gen.BCountSql.rowCountBySd sd

/-- `rc_df.as_record_dict()` -/
def rowCounts (dedupe : Bool) (sd : Expr) (db : Db) : List Row := (rowCountStmt dedupe sd).eval db

/-- `[r["count"] for r in rc]` — what `calculate_cartesian` sums -/
def countsOf (rows : List Row) : List Nat :=
  rows.map fun r => match r with
    | [Val.int i] => i.toNat
    | _ => 0

end SplinkVerif.BCountSql
