import SplinkVerif.Model.Base
/-!
# Model of `splink/internals/one_to_one_clustering.py:one_to_one_clustering`

(called by `linker.clustering.cluster_using_single_best_links`).  One definition
per SQL statement, in the order the code issues them.  Node ids are `0..n-1`
(the harness maps the engine's composite ids to their rank; the algorithm uses
ids only through `=`, `<>` and `min`).  Match probabilities are `Nat`s (the
harness passes the IEEE bit pattern of the non-negative double, which is order
isomorphic; the algorithm uses probabilities only through `>=` and `ORDER BY`).

* `kept`          — `where match_probability >= threshold` (both UNION ALL branches)
* `neighbours`    — `__splink__df_neighbours` (edges `UNION ALL` reversed edges)
* `rows`          — the same table with a row identity (position), so that duplicate
                    rows stay distinguishable for the two `row_number()` windows
* `initialReps`   — `__splink__df_representatives`
* `containsFlag`  — `__splink__representative_contains_flags_k` (`max(cast(source_dataset = 'sd' as int)) > 0`)
* `conflict`      — `duplicate_criteria`
* `isCand`/`cands`— the join + `where l.representative <> r.representative and not (...)` of `__splink__df_ranked_k`
* `gt`/`rank1`    — `row_number() over (partition by <side>.representative order by match_probability desc) = 1`;
                    **ties are broken by an oracle** (`Oracle`): a priority per iteration and row.  The SQL leaves the
                    order of tied rows unspecified and the two windows break ties independently; every choice an engine
                    can make is realised by some pair of oracles, and the theorems quantify over all of them.
* `accepted`      — `__splink__df_neighbours_k` (`rank_l = 1 and rank_r = 1`)
* `step`          — `r` / `__splink__df_representatives_k`: only the row's `node_id` adopts
                    `min(own representative, representative of the neighbour)`
* `updCount`      — `count_of_nodes_needing_updating`
* `loop`/`run`    — `while needs_updating_count > 0` with the forced first pass
* `output`        — `__splink__clustering_output_final`
-/
namespace SplinkVerif.OneToOne

/-- A row `(node_id, neighbour, match_probability)`. -/
abbrev Row := Nat × Nat × Nat
/-- A row of `__splink__df_neighbours` together with its position in the table. -/
abbrev IRow := Row × Nat

@[reducible] def node (x : IRow) : Nat := x.1.1
@[reducible] def nbr (x : IRow) : Nat := x.1.2.1
@[reducible] def prob (x : IRow) : Nat := x.1.2.2
@[reducible] def idx (x : IRow) : Nat := x.2

/-- Input: `n` records `0..n-1`, `ds v` the source dataset of record `v`, the
`duplicate_free_datasets` list, the edge table `(l, r, p)`, the threshold. -/
structure Inst where
  n : Nat
  ds : Nat → Nat
  dupFree : List Nat
  edges : List Row
  thr : Option Nat

/-- `where match_probability >= threshold` (no clause when the threshold is `None`). -/
def kept (I : Inst) : List Row :=
  I.edges.filter fun e => match I.thr with
    | none => true
    | some t => decide (t ≤ e.2.2)

/-- `__splink__df_neighbours`: kept edges `UNION ALL` the same edges reversed. -/
def neighbours (I : Inst) : List Row :=
  kept I ++ (kept I).map fun e => (e.2.1, e.1, e.2.2)

/-- Attach positions `s, s+1, …` to the rows of a table. -/
def indexFrom : Nat → List Row → List IRow
  | _, [] => []
  | s, r :: l => (r, s) :: indexFrom (s + 1) l

/-- `__splink__df_neighbours` with row identities. -/
def rows (I : Inst) : List IRow := indexFrom 0 (neighbours I)

/-- The representatives table: one `representative` per node `0..n-1`. -/
abbrev Reps := List Nat

/-- `__splink__df_representatives`: every node represents itself. -/
def initialReps (I : Inst) : Reps := List.range I.n

/-- Column `representative` of node `v`. -/
def repOf (rep : Reps) (v : Nat) : Nat := rep.getD v v

/-- `contains_<d>` of representative `g`: some record labelled `g` is from dataset `d`. -/
def containsFlag (I : Inst) (rep : Reps) (d g : Nat) : Bool :=
  (List.range I.n).any fun v => repOf rep v == g && I.ds v == d

/-- `duplicate_criteria`: `(l.contains_d and r.contains_d)` for some duplicate-free `d`. -/
def conflict (I : Inst) (rep : Reps) (g h : Nat) : Bool :=
  I.dupFree.any fun d => containsFlag I rep d g && containsFlag I rep d h

/-- A row survives the two inner joins to the nodes and
`where l.representative <> r.representative and not (duplicate_criteria)`. -/
def isCand (I : Inst) (rep : Reps) (x : IRow) : Bool :=
  decide (node x < I.n) && decide (nbr x < I.n) &&
    (repOf rep (node x) != repOf rep (nbr x)) &&
    !conflict I rep (repOf rep (node x)) (repOf rep (nbr x))

/-- Rows of `__splink__df_ranked_k`. -/
def cands (I : Inst) (rep : Reps) : List IRow := (rows I).filter (isCand I rep)

/-- Tie-break oracle of one `row_number()` window: a priority per iteration and row. -/
abbrev Oracle := Nat → Nat → Nat

/-- `x` is ordered strictly before `y` by `order by match_probability desc` with ties
broken by the oracle's priority (and, to make the model a function, by position). -/
def gt (prio : Nat → Nat) (x y : IRow) : Bool :=
  decide (prob y < prob x) ||
    (prob y == prob x &&
      (decide (prio (idx y) < prio (idx x)) ||
        (prio (idx y) == prio (idx x) && decide (idx x < idx y))))

/-- `row_number() over (partition by <side>.representative order by match_probability desc) = 1`. -/
def rank1 (rep : Reps) (side : IRow → Nat) (prio : Nat → Nat) (cs : List IRow) (x : IRow) : Bool :=
  cs.all fun y => repOf rep (side y) != repOf rep (side x) || y == x || gt prio x y

/-- `__splink__df_neighbours_k`: `where rank_l = 1 and rank_r = 1`. -/
def accepted (I : Inst) (oL oR : Oracle) (k : Nat) (rep : Reps) : List IRow :=
  (cands I rep).filter fun x =>
    rank1 rep node (oL k) (cands I rep) x && rank1 rep nbr (oR k) (cands I rep) x

/-- New `representative` of node `v`: `min` over its own row and the representatives of
the neighbours of accepted rows whose `node_id` is `v`. -/
def newRep (rep : Reps) (acc : List IRow) (v : Nat) : Nat :=
  minOver ((acc.filter fun x => node x == v).map fun x => repOf rep (nbr x)) (repOf rep v)

/-- One pass of the loop body: `__splink__df_representatives_k`. -/
def step (I : Inst) (oL oR : Oracle) (k : Nat) (rep : Reps) : Reps :=
  (List.range I.n).map (newRep rep (accepted I oL oR k rep))

/-- `count_of_nodes_needing_updating` (`r.representative <> repr.representative`). -/
def updCount (I : Inst) (rep rep' : Reps) : Nat :=
  ((List.range I.n).filter fun v => repOf rep' v != repOf rep v).length

/-- Result of the loop: final table, index of the last pass, and whether the loop left
through its exit test (`true`) or the model's fuel ran out (`false`; never, see `terminates`). -/
structure Res where
  rep : Reps
  last : Nat
  done : Bool

/-- `while needs_updating_count > 0` (the count starts at 1, so the first pass is forced);
`k` = number of passes already made. -/
def loop (I : Inst) (oL oR : Oracle) : Nat → Nat → Reps → Res
  | 0, k, rep => ⟨rep, k, false⟩
  | fuel + 1, k, rep =>
    let rep' := step I oL oR k rep
    if updCount I rep rep' = 0 then ⟨rep', k, true⟩ else loop I oL oR fuel (k + 1) rep'

/-- Per-pass `needs_updating` counts, as logged by the code. -/
def loopTrace (I : Inst) (oL oR : Oracle) : Nat → Nat → Reps → List Nat
  | 0, _, _ => []
  | fuel + 1, k, rep =>
    let rep' := step I oL oR k rep
    let c := updCount I rep rep'
    if c = 0 then [c] else c :: loopTrace I oL oR fuel (k + 1) rep'

/-- Fuel that provably suffices (`terminates`): the sum of the representatives strictly
decreases on every pass that changes something. -/
def fuel (I : Inst) : Nat := (initialReps I).sum + 1

def run (I : Inst) (oL oR : Oracle) : Res := loop I oL oR (fuel I) 0 (initialReps I)

def trace (I : Inst) (oL oR : Oracle) : List Nat := loopTrace I oL oR (fuel I) 0 (initialReps I)

/-- `__splink__clustering_output_final`: `(node_id, cluster_id)`. -/
def output (I : Inst) (rep : Reps) : List (Nat × Nat) :=
  (List.range I.n).map fun v => (v, repOf rep v)

def cluster (I : Inst) (oL oR : Oracle) : List (Nat × Nat) := output I (run I oL oR).rep

/-! ## Specification vocabulary (used by the theorems and by the driver) -/

/-- Kept edge between `a` and `b` (either orientation) inside one cluster. -/
def adjB (I : Inst) (rep : Reps) (a b : Nat) : Bool :=
  decide (a < I.n) && decide (b < I.n) && (repOf rep a == repOf rep b) &&
    (kept I).any fun e => (e.1 == a && e.2.1 == b) || (e.1 == b && e.2.1 == a)

/-- Every cluster is connected through kept edges that stay inside the cluster. -/
def Connected (I : Inst) (rep : Reps) : Prop :=
  ∀ u v, u < I.n → v < I.n → repOf rep u = repOf rep v → Reach (fun a b => adjB I rep a b = true) u v

/-- No cluster holds two records of one duplicate-free dataset. -/
def DupFreeOK (I : Inst) (rep : Reps) : Prop :=
  ∀ u v, u < I.n → v < I.n → u ≠ v → repOf rep u = repOf rep v → I.ds u = I.ds v →
    I.ds u ∈ I.dupFree → False

/-- Pairwise distinct probabilities: two rows of `__splink__df_neighbours` with equal
probability are the same row or the two orientations of one edge. -/
def TieFree (I : Inst) : Prop :=
  ∀ x ∈ rows I, ∀ y ∈ rows I, prob x = prob y → x = y ∨ (node x = nbr y ∧ nbr x = node y)

instance (I : Inst) : Decidable (TieFree I) := by unfold TieFree; infer_instance

/-- Oracle that always prefers the earlier row (priority 0 everywhere). -/
def zeroOracle : Oracle := fun _ _ => 0

end SplinkVerif.OneToOne
